package main

// One long-lived solver process (z3 -in / z3-new -in / cvc5 --incremental),
// fed incrementally. Terms are sent as define-fun macros, one per DAG node, so
// printing stays linear in DAG size. Any "(error" line makes the query
// inconclusive.

import (
	"bufio"
	"fmt"
	"io"
	"os"
	"os/exec"
	"strings"
	"time"
)

type SatResult int

const (
	Unsat SatResult = iota
	Sat
	Unknown
)

func (r SatResult) String() string { return [...]string{"unsat", "sat", "unknown"}[r] }

type Solver struct {
	kind    string
	cmd     *exec.Cmd
	in      io.WriteCloser
	out     *bufio.Reader
	defined []map[int]bool // per scope: term ids / symbol ids defined
	ufDecl  []map[string]bool
	log     io.Writer
	Queries int
	Time    time.Duration
	MaxTime time.Duration
	Errors  int
	timeout int // ms
	pendingCB func(eval func([]*Term) []uint64)
	buf     strings.Builder
	hung    bool
}

func NewSolver(kind string, timeoutMs int) (*Solver, error) {
	var cmd *exec.Cmd
	switch kind {
	case "z3", "z3-new":
		cmd = exec.Command(kind, "-in", "-smt2")
	case "cvc5":
		cmd = exec.Command("cvc5", "--incremental", "--lang=smt2", "--produce-models", fmt.Sprintf("--tlimit-per=%d", timeoutMs))
	default:
		return nil, fmt.Errorf("unknown solver %q", kind)
	}
	in, err := cmd.StdinPipe()
	if err != nil {
		return nil, err
	}
	outp, err := cmd.StdoutPipe()
	if err != nil {
		return nil, err
	}
	cmd.Stderr = os.Stderr
	if err := cmd.Start(); err != nil {
		return nil, err
	}
	s := &Solver{kind: kind, cmd: cmd, in: in, out: bufio.NewReaderSize(outp, 1<<20), timeout: timeoutMs}
	s.defined = []map[int]bool{{}}
	s.ufDecl = []map[string]bool{{}}
	if f := os.Getenv("VERIF_SMTLOG"); f != "" {
		if fh, err := os.Create(fmt.Sprintf("%s.%d.smt2", f, os.Getpid())); err == nil {
			s.log = fh
		}
	}
	if kind == "cvc5" {
		s.send("(set-logic ALL)\n")
	} else {
		s.send(fmt.Sprintf("(set-option :timeout %d)\n", timeoutMs))
	}
	s.send("(set-option :produce-models true)\n")
	return s, nil
}

func (s *Solver) SetTimeout(ms int) {
	if s.kind != "cvc5" && ms != s.timeout {
		s.timeout = ms
		s.send(fmt.Sprintf("(set-option :timeout %d)\n", ms))
	}
}

func (s *Solver) Close() {
	if s.cmd != nil {
		s.in.Close()
		s.cmd.Process.Kill()
		s.cmd.Wait()
		s.cmd = nil
	}
}

func (s *Solver) send(txt string) {
	if s.log != nil {
		io.WriteString(s.log, txt)
	}
	if _, err := io.WriteString(s.in, txt); err != nil {
		if s.hung {
			panic(engineError{"solver did not answer within 3x its per-query limit + 20 s and was killed (reported inconclusive, never success)"})
		}
		if s.kind == "cvc5" {
			panic(engineError{"cvc5 exited after exceeding its per-query time limit on an earlier query; the remaining paths are inconclusive"})
		}
		panic(engineError{fmt.Sprintf("solver write: %v", err)})
	}
}

func (s *Solver) isDefined(id int) bool {
	for _, m := range s.defined {
		if m[id] {
			return true
		}
	}
	return false
}

// define emits declarations/definitions for every node of t not yet known in
// the current scope stack (iterative post-order).
func (s *Solver) define(t *Term) {
	type fr struct {
		t *Term
		i int
	}
	if t.op == OpConst || s.isDefined(t.id) {
		return
	}
	stack := []fr{{t, 0}}
	top := s.defined[len(s.defined)-1]
	for len(stack) > 0 {
		f := &stack[len(stack)-1]
		if f.i < len(f.t.args) {
			a := f.t.args[f.i]
			f.i++
			if a.op != OpConst && !s.isDefined(a.id) {
				stack = append(stack, fr{a, 0})
			}
			continue
		}
		n := f.t
		stack = stack[:len(stack)-1]
		if s.isDefined(n.id) {
			continue
		}
		top[n.id] = true
		switch n.op {
		case OpSym:
			fmt.Fprintf(&s.buf, "(declare-fun %s () %s)\n", smtName(n.name), n.sort)
		default:
			if n.op == OpApply {
				known := false
				for _, m := range s.ufDecl {
					if m[n.name] {
						known = true
					}
				}
				if !known {
					s.ufDecl[len(s.ufDecl)-1][n.name] = true
					fmt.Fprintf(&s.buf, "(declare-fun %s %s)\n", smtName(n.name), TS.ufSig[n.name])
				}
			}
			fmt.Fprintf(&s.buf, "(define-fun t!%d () %s %s)\n", n.id, n.sort, n.body())
		}
	}
	if s.buf.Len() > 0 {
		s.send(s.buf.String())
		s.buf.Reset()
	}
}

func (s *Solver) Push() {
	s.send("(push 1)\n")
	s.defined = append(s.defined, map[int]bool{})
	s.ufDecl = append(s.ufDecl, map[string]bool{})
}

func (s *Solver) Pop() {
	s.send("(pop 1)\n")
	s.defined = s.defined[:len(s.defined)-1]
	s.ufDecl = s.ufDecl[:len(s.ufDecl)-1]
}

func (s *Solver) Depth() int { return len(s.defined) - 1 }

func (s *Solver) Assert(t *Term) {
	if t == TTrue {
		return
	}
	s.define(t)
	s.send("(assert " + t.ref() + ")\n")
}

func (s *Solver) readLine() string {
	line, err := s.out.ReadString('\n')
	if err != nil && line == "" && s.hung {
		panic(engineError{"solver did not answer within 3x its per-query limit + 20 s and was killed (reported inconclusive, never success)"})
	}
	if err != nil && line == "" {
		panic(engineError{fmt.Sprintf("solver read: %v", err)})
	}
	return strings.TrimRight(line, "\r\n")
}

// readSexp reads one balanced s-expression (possibly spanning lines) or atom line.
func (s *Solver) readSexp() string {
	var sb strings.Builder
	depth := 0
	started := false
	for {
		line := s.readLine()
		if !started && strings.TrimSpace(line) == "" {
			continue
		}
		started = true
		sb.WriteString(line)
		sb.WriteString("\n")
		inBar := false
		for _, c := range line {
			switch {
			case c == '|':
				inBar = !inBar
			case inBar:
			case c == '(':
				depth++
			case c == ')':
				depth--
			}
		}
		if depth <= 0 {
			return sb.String()
		}
	}
}

// Check asks for satisfiability of the current assertions plus extra (scoped).
func (s *Solver) Check(extra *Term, wantModel []*Term) (SatResult, []uint64) {
	if len(wantModel) == 0 {
		return s.checkCB(extra)
	}
	var vals []uint64
	s.pendingCB = func(eval func([]*Term) []uint64) { vals = eval(wantModel) }
	defer func() { s.pendingCB = nil }()
	r, _ := s.checkCB(extra)
	if r == Sat && vals == nil {
		r = Unknown
	}
	return r, vals
}

func (s *Solver) getValues(ts []*Term) []uint64 {
	if len(ts) == 0 {
		return []uint64{}
	}
	for _, m := range ts {
		s.define(m)
	}
	vals := make([]uint64, 0, len(ts))
	const chunk = 200
	for i := 0; i < len(ts); i += chunk {
		j := i + chunk
		if j > len(ts) {
			j = len(ts)
		}
		var sb strings.Builder
		sb.WriteString("(get-value (")
		for _, m := range ts[i:j] {
			sb.WriteString(m.ref() + " ")
		}
		sb.WriteString("))\n")
		s.send(sb.String())
		txt := s.readSexp()
		if strings.HasPrefix(strings.TrimSpace(txt), "(error") {
			s.Errors++
			fmt.Fprintf(os.Stderr, "solver error (get-value): %s\n", txt)
			return nil
		}
		vs := parseValues(txt, j-i)
		if vs == nil {
			fmt.Fprintf(os.Stderr, "cannot parse model: %s\n", txt)
			s.Errors++
			return nil
		}
		vals = append(vals, vs...)
	}
	return vals
}

func (s *Solver) checkCB(extra *Term) (SatResult, []uint64) {
	if extra != nil {
		if extra == TFalse {
			return Unsat, nil
		}
		s.define(extra)
	}
	s.send("(push 1)\n")
	s.defined = append(s.defined, map[int]bool{})
	s.ufDecl = append(s.ufDecl, map[string]bool{})
	if extra != nil && extra != TTrue {
		s.send("(assert " + extra.ref() + ")\n")
	}
	t0 := time.Now()
	s.send("(check-sat)\n")
	// watchdog: a solver stuck in preprocessing ignores its own timeout
	wd := time.AfterFunc(time.Duration(3*s.timeout)*time.Millisecond+20*time.Second, func() {
		s.hung = true
		s.cmd.Process.Kill()
	})
	defer wd.Stop()
	res := Unknown
	for {
		line := strings.TrimSpace(s.readLine())
		if line == "" {
			continue
		}
		if strings.HasPrefix(line, "(error") {
			s.Errors++
			fmt.Fprintf(os.Stderr, "solver error: %s\n", line)
			continue
		}
		switch line {
		case "sat":
			res = Sat
		case "unsat":
			res = Unsat
		case "unknown", "timeout":
			res = Unknown
		default:
			fmt.Fprintf(os.Stderr, "solver says: %s\n", line)
			continue
		}
		break
	}
	d := time.Since(t0)
	s.Time += d
	if d > s.MaxTime {
		s.MaxTime = d
	}
	s.Queries++
	if d > time.Second && os.Getenv("VERIF_SLOWQ") != "" {
		ex := ""
		if extra != nil {
			ex = extra.str(9)
		}
		fmt.Fprintf(os.Stderr, "SLOWQ %.1fs %s: %s\n", d.Seconds(), res, ex)
		if s.log != nil {
			fmt.Fprintf(s.log, "; SLOW %.1fs %s\n", d.Seconds(), res)
		}
	}
	if res == Sat && s.pendingCB != nil {
		s.pendingCB(s.getValues)
	}
	s.send("(pop 1)\n")
	s.defined = s.defined[:len(s.defined)-1]
	s.ufDecl = s.ufDecl[:len(s.ufDecl)-1]
	if s.Errors > 0 {
		// any error line makes the answer unreliable
		res = Unknown
		s.Errors = 0
		solverErrorsSeen++
	}
	return res, nil
}

var solverErrorsSeen int

// parseValues extracts the value literal of each (term value) pair, in order.
func parseValues(txt string, n int) []uint64 {
	toks := tokenize(txt)
	// structure: ( ( term value ) ( term value ) ... )
	pos := 0
	if pos >= len(toks) || toks[pos] != "(" {
		return nil
	}
	pos++
	var out []uint64
	for pos < len(toks) && toks[pos] == "(" {
		pos++
		// skip term (one sexp)
		pos = skipSexp(toks, pos)
		if pos < 0 || pos >= len(toks) {
			return nil
		}
		// value: atom or (_ bvN w)
		v, np, ok := parseValue(toks, pos)
		if !ok {
			return nil
		}
		pos = np
		if pos >= len(toks) || toks[pos] != ")" {
			return nil
		}
		pos++
		out = append(out, v)
	}
	if len(out) != n {
		return nil
	}
	return out
}

func tokenize(s string) []string {
	var toks []string
	i := 0
	for i < len(s) {
		c := s[i]
		switch {
		case c == '(' || c == ')':
			toks = append(toks, string(c))
			i++
		case c == ' ' || c == '\n' || c == '\t' || c == '\r':
			i++
		case c == '|':
			j := i + 1
			for j < len(s) && s[j] != '|' {
				j++
			}
			toks = append(toks, s[i:j+1])
			i = j + 1
		default:
			j := i
			for j < len(s) && !strings.ContainsRune("() \n\t\r", rune(s[j])) {
				j++
			}
			toks = append(toks, s[i:j])
			i = j
		}
	}
	return toks
}

func skipSexp(toks []string, pos int) int {
	if pos >= len(toks) {
		return -1
	}
	if toks[pos] != "(" {
		return pos + 1
	}
	d := 0
	for pos < len(toks) {
		if toks[pos] == "(" {
			d++
		} else if toks[pos] == ")" {
			d--
			if d == 0 {
				return pos + 1
			}
		}
		pos++
	}
	return -1
}

func parseValue(toks []string, pos int) (uint64, int, bool) {
	t := toks[pos]
	switch {
	case t == "true":
		return 1, pos + 1, true
	case t == "false":
		return 0, pos + 1, true
	case strings.HasPrefix(t, "#x"):
		var v uint64
		if len(t) > 18 {
			return 0, 0, false
		}
		_, err := fmt.Sscanf(t[2:], "%x", &v)
		return v, pos + 1, err == nil
	case strings.HasPrefix(t, "#b"):
		var v uint64
		for _, c := range t[2:] {
			v = v<<1 | uint64(c-'0')
		}
		return v, pos + 1, true
	case t == "(":
		// (_ bv123 32)
		if pos+4 < len(toks) && toks[pos+1] == "_" && strings.HasPrefix(toks[pos+2], "bv") && toks[pos+4] == ")" {
			var v uint64
			_, err := fmt.Sscanf(toks[pos+2][2:], "%d", &v)
			return v, pos + 5, err == nil
		}
	}
	return 0, 0, false
}
