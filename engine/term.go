package main

// Hash-consed SMT terms with local simplification. Sorts: Bool, BitVec(w),
// Array(BitVec64 -> BitVec(w)) (symbols only; array updates are ropes, see
// rope.go) and uninterpreted function applications.

import (
	"fmt"
	"math/big"
	"math/bits"
	"sort"
	"strings"
)

type Op uint8

const (
	OpConst Op = iota // BV constant (val) or Bool constant (val 0/1, w==0)
	OpSym             // symbol: name
	OpAdd
	OpSub
	OpMul
	OpUDiv
	OpURem
	OpSDiv
	OpSRem
	OpAnd
	OpOr
	OpXor
	OpShl
	OpLShr
	OpAShr
	OpNot // bvnot
	OpNeg
	OpZExt    // to width w
	OpSExt    // to width w
	OpExtract // hi=aux, lo=aux2
	OpConcat
	OpEq
	OpULt
	OpULe
	OpSLt
	OpSLe
	OpBNot // boolean not
	OpBAnd
	OpBOr
	OpIte
	OpSelect // args: array sym, index
	OpApply  // uninterpreted function: name, args
)

var opNames = map[Op]string{
	OpAdd: "bvadd", OpSub: "bvsub", OpMul: "bvmul", OpUDiv: "bvudiv", OpURem: "bvurem",
	OpSDiv: "bvsdiv", OpSRem: "bvsrem", OpAnd: "bvand", OpOr: "bvor", OpXor: "bvxor",
	OpShl: "bvshl", OpLShr: "bvlshr", OpAShr: "bvashr", OpNot: "bvnot", OpNeg: "bvneg",
	OpConcat: "concat", OpEq: "=", OpULt: "bvult", OpULe: "bvule", OpSLt: "bvslt", OpSLe: "bvsle",
	OpBNot: "not", OpBAnd: "and", OpBOr: "or", OpIte: "ite", OpSelect: "select",
}

// Sort: W==0 => Bool; W>0, Arr==false => BitVec W; Arr => Array BV64 -> BV W.
type Sort struct {
	W   int
	Arr bool
}

func (s Sort) String() string {
	if s.Arr {
		return fmt.Sprintf("(Array (_ BitVec 64) (_ BitVec %d))", s.W)
	}
	if s.W == 0 {
		return "Bool"
	}
	return fmt.Sprintf("(_ BitVec %d)", s.W)
}

var BoolSort = Sort{}

func BV(w int) Sort { return Sort{W: w} }

type Term struct {
	id   int
	op   Op
	sort Sort
	val  uint64 // constant value
	name string // symbol / uf name
	aux  int
	aux2 int
	args []*Term
	// cached unsigned bounds (valid for BV sorts)
	hasB   bool
	lo, hi uint64
}

type termKey struct {
	op         Op
	sort       Sort
	val        uint64
	name       string
	aux, aux2  int
	a0, a1, a2 int
	rest       string
}

type TermStore struct {
	tab   map[termKey]*Term
	next  int
	ufSig map[string]string // name -> declaration text
}

var TS = &TermStore{tab: map[termKey]*Term{}, ufSig: map[string]string{}}

func (ts *TermStore) mk(op Op, sort Sort, val uint64, name string, aux, aux2 int, args ...*Term) *Term {
	k := termKey{op: op, sort: sort, val: val, name: name, aux: aux, aux2: aux2, a0: -1, a1: -1, a2: -1}
	if len(args) > 0 {
		k.a0 = args[0].id
	}
	if len(args) > 1 {
		k.a1 = args[1].id
	}
	if len(args) > 2 {
		k.a2 = args[2].id
	}
	if len(args) > 3 {
		var sb strings.Builder
		for _, a := range args[3:] {
			fmt.Fprintf(&sb, "%d,", a.id)
		}
		k.rest = sb.String()
	}
	if t, ok := ts.tab[k]; ok {
		return t
	}
	t := &Term{id: ts.next, op: op, sort: sort, val: val, name: name, aux: aux, aux2: aux2, args: args}
	ts.next++
	ts.tab[k] = t
	return t
}

func mask(w int) uint64 {
	if w >= 64 {
		return ^uint64(0)
	}
	return (uint64(1) << uint(w)) - 1
}

func signExt(v uint64, w int) int64 {
	if w >= 64 {
		return int64(v)
	}
	sh := uint(64 - w)
	return int64(v<<sh) >> sh
}

var (
	TTrue  = TS.mk(OpConst, BoolSort, 1, "", 0, 0)
	TFalse = TS.mk(OpConst, BoolSort, 0, "", 0, 0)
)

func Bool(b bool) *Term {
	if b {
		return TTrue
	}
	return TFalse
}

func Const(w int, v uint64) *Term {
	if w <= 0 || w > 64 {
		panic(fmt.Sprintf("Const width %d", w))
	}
	return TS.mk(OpConst, BV(w), v&mask(w), "", 0, 0)
}

func C64(v uint64) *Term { return Const(64, v) }

func Sym(name string, s Sort) *Term { return TS.mk(OpSym, s, 0, name, 0, 0) }

func (t *Term) IsConst() bool { return t.op == OpConst }
func (t *Term) IsTrue() bool  { return t == TTrue }
func (t *Term) IsFalse() bool { return t == TFalse }
func (t *Term) W() int        { return t.sort.W }
func (t *Term) IsBool() bool  { return t.sort.W == 0 && !t.sort.Arr }

// ConstVal returns the constant value (zero-extended).
func (t *Term) ConstVal() (uint64, bool) {
	if t.op == OpConst {
		return t.val, true
	}
	return 0, false
}

// Bounds returns conservative unsigned bounds for a BV term.
func (t *Term) Bounds() (uint64, uint64) {
	if t.hasB {
		return t.lo, t.hi
	}
	lo, hi := uint64(0), mask(t.sort.W)
	switch t.op {
	case OpConst:
		lo, hi = t.val, t.val
	case OpZExt:
		lo, hi = t.args[0].Bounds()
	case OpAnd:
		_, h0 := t.args[0].Bounds()
		_, h1 := t.args[1].Bounds()
		if h0 < h1 {
			hi = h0
		} else {
			hi = h1
		}
	case OpOr, OpXor:
		_, h0 := t.args[0].Bounds()
		_, h1 := t.args[1].Bounds()
		m := h0 | h1
		if m != 0 {
			hi = (uint64(1) << uint(bits.Len64(m))) - 1
			if bits.Len64(m) == 64 {
				hi = ^uint64(0)
			}
		} else {
			hi = 0
		}
	case OpLShr:
		l0, h0 := t.args[0].Bounds()
		if c, ok := t.args[1].ConstVal(); ok {
			if c >= 64 {
				lo, hi = 0, 0
			} else {
				lo, hi = l0>>c, h0>>c
			}
		} else {
			hi = h0
		}
	case OpURem:
		_, h0 := t.args[0].Bounds()
		hi = h0
		if c, ok := t.args[1].ConstVal(); ok && c > 0 && c-1 < hi {
			hi = c - 1
		}
	case OpUDiv:
		l0, h0 := t.args[0].Bounds()
		if c, ok := t.args[1].ConstVal(); ok && c > 0 {
			lo, hi = l0/c, h0/c
		} else {
			hi = h0
		}
	case OpAdd:
		l0, h0 := t.args[0].Bounds()
		l1, h1 := t.args[1].Bounds()
		s, carry := bits.Add64(h0, h1, 0)
		if carry == 0 && s <= mask(t.sort.W) {
			lo, hi = l0+l1, s
		}
	case OpSub:
		l0, h0 := t.args[0].Bounds()
		l1, h1 := t.args[1].Bounds()
		if l0 >= h1 { // never wraps
			lo, hi = l0-h1, h0-l1
		}
	case OpMul:
		l0, h0 := t.args[0].Bounds()
		l1, h1 := t.args[1].Bounds()
		hh, ll := bits.Mul64(h0, h1)
		if hh == 0 && ll <= mask(t.sort.W) {
			lo, hi = l0*l1, ll
		}
	case OpShl:
		l0, h0 := t.args[0].Bounds()
		if c, ok := t.args[1].ConstVal(); ok && c < 64 {
			if h0 <= mask(t.sort.W)>>c {
				lo, hi = l0<<c, h0<<c
			}
		}
	case OpIte:
		l1, h1 := t.args[1].Bounds()
		l2, h2 := t.args[2].Bounds()
		lo, hi = l1, h1
		if l2 < lo {
			lo = l2
		}
		if h2 > hi {
			hi = h2
		}
	case OpExtract:
		if t.aux2 == 0 {
			l0, h0 := t.args[0].Bounds()
			if h0 <= mask(t.sort.W) {
				lo, hi = l0, h0
			}
		}
	case OpConcat:
		// high part bounds
		_, h0 := t.args[0].Bounds()
		w1 := t.args[1].sort.W
		if h0 <= mask(t.sort.W-w1) {
			hi = (h0 << uint(w1)) | mask(w1)
		}
	}
	t.hasB, t.lo, t.hi = true, lo, hi
	return lo, hi
}

func bin(op Op, a, b *Term) *Term {
	if a.sort != b.sort {
		panic(fmt.Sprintf("sort mismatch in %s: %v vs %v", opNames[op], a.sort, b.sort))
	}
	return TS.mk(op, a.sort, 0, "", 0, 0, a, b)
}

func Add(a, b *Term) *Term {
	w := a.W()
	if x, ok := a.ConstVal(); ok {
		if y, ok := b.ConstVal(); ok {
			return Const(w, x+y)
		}
		if x == 0 {
			return b
		}
		a, b = b, a // constant to the right
	}
	if y, ok := b.ConstVal(); ok {
		if y == 0 {
			return a
		}
		// (x + c1) + c2
		if a.op == OpAdd {
			if c1, ok := a.args[1].ConstVal(); ok {
				return Add(a.args[0], Const(w, c1+y))
			}
		}
		if a.op == OpSub {
			if c1, ok := a.args[1].ConstVal(); ok {
				return Add(a.args[0], Const(w, y-c1))
			}
		}
	}
	return bin(OpAdd, a, b)
}

func Sub(a, b *Term) *Term {
	w := a.W()
	if a == b {
		return Const(w, 0)
	}
	if y, ok := b.ConstVal(); ok {
		if x, ok := a.ConstVal(); ok {
			return Const(w, x-y)
		}
		return Add(a, Const(w, -y))
	}
	// (x + c) - x
	if a.op == OpAdd && a.args[0] == b {
		return a.args[1]
	}
	if a.op == OpAdd && b.op == OpAdd && a.args[0] == b.args[0] {
		return Sub(a.args[1], b.args[1])
	}
	if b.op == OpAdd && b.args[0] == a {
		return Neg(b.args[1])
	}
	return bin(OpSub, a, b)
}

func Neg(a *Term) *Term {
	if x, ok := a.ConstVal(); ok {
		return Const(a.W(), -x)
	}
	return TS.mk(OpNeg, a.sort, 0, "", 0, 0, a)
}

func Mul(a, b *Term) *Term {
	w := a.W()
	if x, ok := a.ConstVal(); ok {
		if y, ok := b.ConstVal(); ok {
			return Const(w, x*y)
		}
		a, b = b, a
	}
	if y, ok := b.ConstVal(); ok {
		if y == 0 {
			return b
		}
		if y == 1 {
			return a
		}
		if y&(y-1) == 0 {
			return Shl(a, Const(w, uint64(bits.TrailingZeros64(y))))
		}
		// small constants as shift-and-add (bit-blasted multipliers are slow)
		if bits.OnesCount64(y) == 2 {
			hi := uint64(63 - bits.LeadingZeros64(y))
			lo := uint64(bits.TrailingZeros64(y))
			return Add(Shl(a, Const(w, hi)), Shl(a, Const(w, lo)))
		}
		if (y+1)&y == 0 && y < 1<<20 { // 2^k - 1
			k := uint64(bits.TrailingZeros64(y + 1))
			return Sub(Shl(a, Const(w, k)), a)
		}
	}
	return bin(OpMul, a, b)
}

func UDiv(a, b *Term) *Term {
	w := a.W()
	if y, ok := b.ConstVal(); ok && y != 0 {
		if x := mulByConstNoOverflow(a, y); x != nil {
			if _, h := x.Bounds(); h < 1<<63 {
				return x
			}
		}
		if x, ok := a.ConstVal(); ok {
			return Const(w, x/y)
		}
		if y == 1 {
			return a
		}
		if y&(y-1) == 0 {
			return LShr(a, Const(w, uint64(bits.TrailingZeros64(y))))
		}
	}
	return bin(OpUDiv, a, b)
}

func URem(a, b *Term) *Term {
	w := a.W()
	if y, ok := b.ConstVal(); ok && y != 0 {
		if x := mulByConstNoOverflow(a, y); x != nil {
			if _, h := x.Bounds(); h < 1<<63 {
				return Const(w, 0)
			}
		}
		if x, ok := a.ConstVal(); ok {
			return Const(w, x%y)
		}
		if y&(y-1) == 0 {
			return And(a, Const(w, y-1))
		}
	}
	return bin(OpURem, a, b)
}

// SRange returns conservative signed bounds of a 64-bit term derived from its
// structure (ok=false when nothing better than the full range is known).
func (t *Term) SRange() (int64, int64, bool) {
	if t.sort.W != 64 || t.sort.Arr {
		return 0, 0, false
	}
	if lo, hi := t.Bounds(); hi < 1<<63 {
		return int64(lo), int64(hi), true
	}
	fits := func(lo, hi *big.Int) (int64, int64, bool) {
		if lo.IsInt64() && hi.IsInt64() {
			return lo.Int64(), hi.Int64(), true
		}
		return 0, 0, false
	}
	switch t.op {
	case OpConst:
		return int64(t.val), int64(t.val), true
	case OpAdd, OpSub:
		l0, h0, ok0 := t.args[0].SRange()
		l1, h1, ok1 := t.args[1].SRange()
		if !ok0 || !ok1 {
			return 0, 0, false
		}
		if t.op == OpAdd {
			return fits(new(big.Int).Add(big.NewInt(l0), big.NewInt(l1)), new(big.Int).Add(big.NewInt(h0), big.NewInt(h1)))
		}
		return fits(new(big.Int).Sub(big.NewInt(l0), big.NewInt(h1)), new(big.Int).Sub(big.NewInt(h0), big.NewInt(l1)))
	case OpMul:
		c, ok := t.args[1].ConstVal()
		l0, h0, ok0 := t.args[0].SRange()
		if !ok || !ok0 {
			return 0, 0, false
		}
		a := new(big.Int).Mul(big.NewInt(l0), big.NewInt(int64(c)))
		b := new(big.Int).Mul(big.NewInt(h0), big.NewInt(int64(c)))
		if a.Cmp(b) > 0 {
			a, b = b, a
		}
		return fits(a, b)
	case OpIte:
		l1, h1, ok1 := t.args[1].SRange()
		l2, h2, ok2 := t.args[2].SRange()
		if !ok1 || !ok2 {
			return 0, 0, false
		}
		if l2 < l1 {
			l1 = l2
		}
		if h2 > h1 {
			h1 = h2
		}
		return l1, h1, true
	}
	return 0, 0, false
}

// mulByConstNoOverflow reports x when a == x*c (c > 0 as a signed number) and
// x*c provably stays inside the signed range of the width, so that signed
// division by c undoes it exactly and the remainder is 0. Looks through ite.
func mulByConstNoOverflow(a *Term, c uint64) *Term {
	if c == 0 || a.W() != 64 || int64(c) < 0 {
		return nil
	}
	switch a.op {
	case OpConst:
		if v := int64(a.val); v%int64(c) == 0 {
			return Const(64, uint64(v/int64(c)))
		}
		return nil
	case OpIte:
		x, y := mulByConstNoOverflow(a.args[1], c), mulByConstNoOverflow(a.args[2], c)
		if x == nil || y == nil {
			return nil
		}
		return Ite(a.args[0], x, y)
	case OpMul:
		if y, ok := a.args[1].ConstVal(); !ok || y != c {
			return nil
		}
		x := a.args[0]
		lo, hi, ok := x.SRange()
		if !ok {
			return nil
		}
		l := new(big.Int).Mul(big.NewInt(lo), big.NewInt(int64(c)))
		h := new(big.Int).Mul(big.NewInt(hi), big.NewInt(int64(c)))
		if !l.IsInt64() || !h.IsInt64() {
			return nil
		}
		return x
	}
	return nil
}

func SDiv(a, b *Term) *Term {
	w := a.W()
	if y, ok := b.ConstVal(); ok && y != 0 {
		if x := mulByConstNoOverflow(a, y); x != nil {
			return x
		}
		if x, ok := a.ConstVal(); ok {
			sx, sy := signExt(x, w), signExt(y, w)
			if sy == -1 {
				return Const(w, uint64(-sx))
			}
			return Const(w, uint64(sx/sy))
		}
		if y == 1 {
			return a
		}
		if sy := signExt(y, w); sy > 0 && y&(y-1) == 0 {
			// x / 2^k (truncating) = (x + (x<0 ? 2^k-1 : 0)) >>a k
			k := uint64(bits.TrailingZeros64(y))
			neg := SLt(a, Const(w, 0))
			adj := Ite(neg, Const(w, y-1), Const(w, 0))
			return AShr(Add(a, adj), Const(w, k))
		}
	}
	return bin(OpSDiv, a, b)
}

func SRem(a, b *Term) *Term {
	w := a.W()
	if y, ok := b.ConstVal(); ok && y != 0 {
		if x := mulByConstNoOverflow(a, y); x != nil {
			return Const(w, 0)
		}
		if x, ok := a.ConstVal(); ok {
			sx, sy := signExt(x, w), signExt(y, w)
			if sy == -1 {
				return Const(w, 0)
			}
			return Const(w, uint64(sx%sy))
		}
	}
	return bin(OpSRem, a, b)
}

func And(a, b *Term) *Term {
	w := a.W()
	if a == b {
		return a
	}
	if x, ok := a.ConstVal(); ok {
		if y, ok := b.ConstVal(); ok {
			return Const(w, x&y)
		}
		a, b = b, a
	}
	if y, ok := b.ConstVal(); ok {
		if y == 0 {
			return b
		}
		if y == mask(w) {
			return a
		}
		if _, h := a.Bounds(); h <= y && y&(y+1) == 0 {
			return a // mask covers all possible bits
		}
	} else if a.id > b.id {
		a, b = b, a
	}
	return bin(OpAnd, a, b)
}

func Or(a, b *Term) *Term {
	w := a.W()
	if a == b {
		return a
	}
	if x, ok := a.ConstVal(); ok {
		if y, ok := b.ConstVal(); ok {
			return Const(w, x|y)
		}
		a, b = b, a
	}
	if y, ok := b.ConstVal(); ok {
		if y == 0 {
			return a
		}
		if y == mask(w) {
			return b
		}
	}
	// or of zero-extended byte shifted pieces is left as is
	if !b.IsConst() && a.id > b.id {
		a, b = b, a
	}
	return bin(OpOr, a, b)
}

func Xor(a, b *Term) *Term {
	w := a.W()
	if a == b {
		return Const(w, 0)
	}
	// (x ^ y) ^ y -> x
	if a.op == OpXor {
		if a.args[1] == b {
			return a.args[0]
		}
		if a.args[0] == b {
			return a.args[1]
		}
	}
	if b.op == OpXor {
		if b.args[1] == a {
			return b.args[0]
		}
		if b.args[0] == a {
			return b.args[1]
		}
	}
	if x, ok := a.ConstVal(); ok {
		if y, ok := b.ConstVal(); ok {
			return Const(w, x^y)
		}
		a, b = b, a
	}
	if y, ok := b.ConstVal(); ok {
		if y == 0 {
			return a
		}
		if y == mask(w) {
			return BVNot(a)
		}
	}
	if a.op == OpXor || b.op == OpXor || (!b.IsConst() && a.id > b.id) {
		if t := xorNormal(a, b); t != nil {
			return t
		}
	}
	return bin(OpXor, a, b)
}

// xorNormal rebuilds a ^ b as a left-associated chain over the leaves of both
// operands sorted by term id (equal leaves cancel, constants fold to the end),
// so two xor trees over the same multiset of leaves are the same term. Chains
// longer than xorChainMax are left alone (nil).
const xorChainMax = 1024

func xorNormal(a, b *Term) *Term {
	w := a.W()
	leaves := make([]*Term, 0, 16)
	var collect func(t *Term) bool
	var c uint64
	collect = func(t *Term) bool {
		for t.op == OpXor || t.op == OpNot {
			if t.op == OpNot {
				c ^= mask(w)
				t = t.args[0]
				continue
			}
			if !collect(t.args[1]) {
				return false
			}
			t = t.args[0]
		}
		leaves = append(leaves, t)
		return len(leaves) <= xorChainMax
	}
	if !collect(a) || !collect(b) {
		return nil
	}
	sort.Slice(leaves, func(i, j int) bool { return leaves[i].id < leaves[j].id })
	var acc *Term
	for i := 0; i < len(leaves); i++ {
		l := leaves[i]
		if i+1 < len(leaves) && leaves[i+1] == l {
			i++
			continue
		}
		if v, ok := l.ConstVal(); ok {
			c ^= v
			continue
		}
		if acc == nil {
			acc = l
		} else {
			acc = bin(OpXor, acc, l)
		}
	}
	if acc == nil {
		return Const(w, c)
	}
	if c == 0 {
		return acc
	}
	if c == mask(w) {
		return BVNot(acc)
	}
	return bin(OpXor, acc, Const(w, c))
}

func BVNot(a *Term) *Term {
	if x, ok := a.ConstVal(); ok {
		return Const(a.W(), ^x)
	}
	if a.op == OpNot {
		return a.args[0]
	}
	return TS.mk(OpNot, a.sort, 0, "", 0, 0, a)
}

// Shl etc. take a shift amount of the same width as a (caller normalises).
func Shl(a, b *Term) *Term {
	w := a.W()
	if y, ok := b.ConstVal(); ok {
		if y == 0 {
			return a
		}
		if y >= uint64(w) {
			return Const(w, 0)
		}
		if x, ok := a.ConstVal(); ok {
			return Const(w, x<<y)
		}
	}
	if x, ok := a.ConstVal(); ok && x == 0 {
		return a
	}
	return bin(OpShl, a, b)
}

func LShr(a, b *Term) *Term {
	w := a.W()
	if y, ok := b.ConstVal(); ok {
		if y == 0 {
			return a
		}
		if y >= uint64(w) {
			return Const(w, 0)
		}
		if x, ok := a.ConstVal(); ok {
			return Const(w, x>>y)
		}
		// (zext x) >> c where c >= width(x) -> 0
		if _, h := a.Bounds(); h>>y == 0 {
			return Const(w, 0)
		}
	}
	if x, ok := a.ConstVal(); ok && x == 0 {
		return a
	}
	return bin(OpLShr, a, b)
}

func AShr(a, b *Term) *Term {
	w := a.W()
	if y, ok := b.ConstVal(); ok {
		if y == 0 {
			return a
		}
		if x, ok := a.ConstVal(); ok {
			if y >= uint64(w) {
				y = uint64(w - 1)
			}
			return Const(w, uint64(signExt(x, w)>>y))
		}
	}
	return bin(OpAShr, a, b)
}

func ZExt(a *Term, w int) *Term {
	if a.W() == w {
		return a
	}
	if a.W() > w {
		panic("ZExt narrowing")
	}
	if x, ok := a.ConstVal(); ok {
		return Const(w, x)
	}
	if a.op == OpZExt {
		return ZExt(a.args[0], w)
	}
	return TS.mk(OpZExt, BV(w), 0, "", 0, 0, a)
}

func SExt(a *Term, w int) *Term {
	if a.W() == w {
		return a
	}
	if a.W() > w {
		panic("SExt narrowing")
	}
	if x, ok := a.ConstVal(); ok {
		return Const(w, uint64(signExt(x, a.W())))
	}
	if a.op == OpZExt { // sign bit is zero
		return ZExt(a.args[0], w)
	}
	if _, h := a.Bounds(); h < uint64(1)<<uint(a.W()-1) {
		return ZExt(a, w)
	}
	return TS.mk(OpSExt, BV(w), 0, "", 0, 0, a)
}

func Extract(a *Term, hi, lo int) *Term {
	w := hi - lo + 1
	if lo == 0 && w == a.W() {
		return a
	}
	if x, ok := a.ConstVal(); ok {
		return Const(w, x>>uint(lo))
	}
	if lo == 0 {
		switch a.op {
		case OpZExt, OpSExt:
			in := a.args[0]
			if in.W() == w {
				return in
			}
			if in.W() > w {
				return Extract(in, hi, 0)
			}
			if a.op == OpZExt {
				return ZExt(in, w)
			}
			return SExt(in, w)
		case OpAdd, OpSub, OpMul, OpAnd, OpOr, OpXor:
			// truncation distributes over these ops
			x, y := Extract(a.args[0], hi, 0), Extract(a.args[1], hi, 0)
			switch a.op {
			case OpAdd:
				return Add(x, y)
			case OpSub:
				return Sub(x, y)
			case OpMul:
				return Mul(x, y)
			case OpAnd:
				return And(x, y)
			case OpOr:
				return Or(x, y)
			case OpXor:
				return Xor(x, y)
			}
		case OpConcat:
			if a.args[1].W() == w {
				return a.args[1]
			}
			if a.args[1].W() > w {
				return Extract(a.args[1], hi, 0)
			}
		}
	}
	if a.op == OpExtract {
		return Extract(a.args[0], hi+a.aux2, lo+a.aux2)
	}
	if a.op == OpLShr {
		if c, ok := a.args[1].ConstVal(); ok && int(c)+hi < a.W() {
			return Extract(a.args[0], hi+int(c), lo+int(c))
		}
	}
	if a.op == OpConcat {
		w1 := a.args[1].W()
		if lo >= w1 {
			return Extract(a.args[0], hi-w1, lo-w1)
		}
		if hi < w1 {
			return Extract(a.args[1], hi, lo)
		}
	}
	if a.op == OpZExt {
		in := a.args[0]
		if lo >= in.W() {
			return Const(w, 0)
		}
		if hi < in.W() {
			return Extract(in, hi, lo)
		}
	}
	// (or (shl (zext x) c) y) patterns for big-endian reads: extract byte
	if a.op == OpOr || a.op == OpXor || a.op == OpAnd {
		// distribute extract when cheap (byte extraction from assembled words)
		if w <= 8 {
			x, y := Extract(a.args[0], hi, lo), Extract(a.args[1], hi, lo)
			switch a.op {
			case OpOr:
				return Or(x, y)
			case OpXor:
				return Xor(x, y)
			case OpAnd:
				return And(x, y)
			}
		}
	}
	if a.op == OpShl {
		if c, ok := a.args[1].ConstVal(); ok {
			if hi < int(c) {
				return Const(w, 0)
			}
			if lo >= int(c) {
				return Extract(a.args[0], hi-int(c), lo-int(c))
			}
		}
	}
	return TS.mk(OpExtract, BV(w), 0, "", hi, lo, a)
}

func Concat(a, b *Term) *Term {
	w := a.W() + b.W()
	if w <= 64 {
		if x, ok := a.ConstVal(); ok {
			if y, ok := b.ConstVal(); ok {
				return Const(w, x<<uint(b.W())|y)
			}
			if x == 0 {
				return ZExt(b, w)
			}
		}
	}
	return TS.mk(OpConcat, BV(w), 0, "", 0, 0, a, b)
}

func Not(a *Term) *Term {
	if a == TTrue {
		return TFalse
	}
	if a == TFalse {
		return TTrue
	}
	if a.op == OpBNot {
		return a.args[0]
	}
	switch a.op {
	case OpULt:
		return ULe(a.args[1], a.args[0])
	case OpULe:
		return ULt(a.args[1], a.args[0])
	case OpSLt:
		return SLe(a.args[1], a.args[0])
	case OpSLe:
		return SLt(a.args[1], a.args[0])
	}
	return TS.mk(OpBNot, BoolSort, 0, "", 0, 0, a)
}

func BAnd(a, b *Term) *Term {
	if a == TFalse || b == TFalse {
		return TFalse
	}
	if a == TTrue {
		return b
	}
	if b == TTrue {
		return a
	}
	if a == b {
		return a
	}
	if a == Not(b) {
		return TFalse
	}
	return TS.mk(OpBAnd, BoolSort, 0, "", 0, 0, a, b)
}

func BOr(a, b *Term) *Term {
	if a == TTrue || b == TTrue {
		return TTrue
	}
	if a == TFalse {
		return b
	}
	if b == TFalse {
		return a
	}
	if a == b {
		return a
	}
	if a == Not(b) {
		return TTrue
	}
	return TS.mk(OpBOr, BoolSort, 0, "", 0, 0, a, b)
}

func Implies(a, b *Term) *Term { return BOr(Not(a), b) }

func AndAll(ts ...*Term) *Term {
	r := TTrue
	for _, t := range ts {
		r = BAnd(r, t)
	}
	return r
}

func Eq(a, b *Term) *Term {
	if a.sort != b.sort {
		panic(fmt.Sprintf("Eq sort mismatch %v %v", a.sort, b.sort))
	}
	if a == b {
		return TTrue
	}
	if a.IsConst() && b.IsConst() {
		return Bool(a.val == b.val)
	}
	if a.IsBool() {
		if a == TTrue {
			return b
		}
		if b == TTrue {
			return a
		}
		if a == TFalse {
			return Not(b)
		}
		if b == TFalse {
			return Not(a)
		}
	} else if !a.sort.Arr {
		la, ha := a.Bounds()
		lb, hb := b.Bounds()
		if ha < lb || hb < la {
			return TFalse
		}
		if a.IsConst() {
			a, b = b, a
		}
		// zext(x) == c  ->  x == c'
		if c, ok := b.ConstVal(); ok {
			if a.op == OpZExt {
				in := a.args[0]
				if c > mask(in.W()) {
					return TFalse
				}
				return Eq(in, Const(in.W(), c))
			}
			if a.op == OpIte {
				if a.args[1].IsConst() && a.args[2].IsConst() {
					return Ite(a.args[0], Eq(a.args[1], b), Eq(a.args[2], b))
				}
			}
			if a.op == OpAdd {
				if c1, ok := a.args[1].ConstVal(); ok {
					return Eq(a.args[0], Const(a.W(), c-c1))
				}
			}
			if a.op == OpXor {
				if c1, ok := a.args[1].ConstVal(); ok {
					return Eq(a.args[0], Const(a.W(), c^c1))
				}
			}
		}
		if a.op == OpZExt && b.op == OpZExt && a.args[0].sort == b.args[0].sort {
			return Eq(a.args[0], b.args[0])
		}
		if a.op == OpAdd && b.op == OpAdd && a.args[1] == b.args[1] && a.args[1].IsConst() {
			return Eq(a.args[0], b.args[0])
		}
	}
	if a.id > b.id {
		a, b = b, a
	}
	return TS.mk(OpEq, BoolSort, 0, "", 0, 0, a, b)
}

// stripAdd removes a common / one-sided constant addend from both sides of a
// comparison when neither side can wrap around (decided from bounds).
func stripAdd(a, b *Term) (*Term, *Term, bool) {
	w := a.W()
	split := func(t *Term) (*Term, uint64, bool) {
		if t.op == OpAdd {
			if c, ok := t.args[1].ConstVal(); ok {
				_, h := t.args[0].Bounds()
				if s, carry := bits.Add64(h, c, 0); carry == 0 && s <= mask(w) {
					return t.args[0], c, true
				}
				return nil, 0, false
			}
		}
		if c, ok := t.ConstVal(); ok {
			return nil, c, true
		}
		return t, 0, true
	}
	xa, ca, ok1 := split(a)
	xb, cb, ok2 := split(b)
	if !ok1 || !ok2 || (ca == 0 && cb == 0) {
		return a, b, false
	}
	m := ca
	if cb < m {
		m = cb
	}
	if m == 0 {
		return a, b, false
	}
	mk := func(x *Term, c uint64) *Term {
		if x == nil {
			return Const(w, c)
		}
		if c == 0 {
			return x
		}
		return TS.mk(OpAdd, x.sort, 0, "", 0, 0, x, Const(w, c))
	}
	return mk(xa, ca-m), mk(xb, cb-m), true
}

func ULt(a, b *Term) *Term {
	if a == b {
		return TFalse
	}
	la, ha := a.Bounds()
	lb, hb := b.Bounds()
	if ha < lb {
		return TTrue
	}
	if la >= hb {
		return TFalse
	}
	if a.op == OpZExt && b.op == OpZExt && a.args[0].sort == b.args[0].sort {
		return ULt(a.args[0], b.args[0])
	}
	if x, y, ok := stripAdd(a, b); ok {
		return ULt(x, y)
	}
	if c, ok := b.ConstVal(); ok && a.op == OpZExt && c <= mask(a.args[0].W()) {
		return ULt(a.args[0], Const(a.args[0].W(), c))
	}
	if c, ok := a.ConstVal(); ok && b.op == OpZExt && c <= mask(b.args[0].W()) {
		return ULt(Const(b.args[0].W(), c), b.args[0])
	}
	return TS.mk(OpULt, BoolSort, 0, "", 0, 0, a, b)
}

func ULe(a, b *Term) *Term {
	if a == b {
		return TTrue
	}
	la, ha := a.Bounds()
	lb, hb := b.Bounds()
	if ha <= lb {
		return TTrue
	}
	if la > hb {
		return TFalse
	}
	if a.op == OpZExt && b.op == OpZExt && a.args[0].sort == b.args[0].sort {
		return ULe(a.args[0], b.args[0])
	}
	if x, y, ok := stripAdd(a, b); ok {
		return ULe(x, y)
	}
	if c, ok := b.ConstVal(); ok && a.op == OpZExt && c <= mask(a.args[0].W()) {
		return ULe(a.args[0], Const(a.args[0].W(), c))
	}
	if c, ok := a.ConstVal(); ok && b.op == OpZExt && c <= mask(b.args[0].W()) {
		return ULe(Const(b.args[0].W(), c), b.args[0])
	}
	return TS.mk(OpULe, BoolSort, 0, "", 0, 0, a, b)
}

func nonNeg(a *Term) bool {
	_, h := a.Bounds()
	return h < uint64(1)<<uint(a.W()-1)
}

// commonScale finds a constant c > 1 such that both a and b are exact,
// non-overflowing multiples x*c and y*c (one side may be a constant), and
// returns x, y.
func commonScale(a, b *Term) (*Term, *Term) {
	var c uint64
	for _, t := range []*Term{a, b} {
		u := t
		for u.op == OpIte {
			u = u.args[1]
		}
		if u.op == OpMul {
			if v, ok := u.args[1].ConstVal(); ok && v > 1 {
				c = v
				break
			}
		}
	}
	if c == 0 || a.W() != 64 {
		return nil, nil
	}
	x, y := mulByConstNoOverflow(a, c), mulByConstNoOverflow(b, c)
	if x == nil || y == nil {
		return nil, nil
	}
	return x, y
}

func SLt(a, b *Term) *Term {
	if a == b {
		return TFalse
	}
	if a.IsConst() && b.IsConst() {
		return Bool(signExt(a.val, a.W()) < signExt(b.val, b.W()))
	}
	if nonNeg(a) && nonNeg(b) {
		return ULt(a, b)
	}
	if x, y := commonScale(a, b); x != nil {
		return SLt(x, y)
	}
	return TS.mk(OpSLt, BoolSort, 0, "", 0, 0, a, b)
}

func SLe(a, b *Term) *Term {
	if a == b {
		return TTrue
	}
	if a.IsConst() && b.IsConst() {
		return Bool(signExt(a.val, a.W()) <= signExt(b.val, b.W()))
	}
	if nonNeg(a) && nonNeg(b) {
		return ULe(a, b)
	}
	if x, y := commonScale(a, b); x != nil {
		return SLe(x, y)
	}
	return TS.mk(OpSLe, BoolSort, 0, "", 0, 0, a, b)
}

func Ite(c, a, b *Term) *Term {
	if c == TTrue {
		return a
	}
	if c == TFalse {
		return b
	}
	if a == b {
		return a
	}
	if a.sort != b.sort {
		panic(fmt.Sprintf("Ite sort mismatch %v %v", a.sort, b.sort))
	}
	if a.IsBool() {
		if a == TTrue && b == TFalse {
			return c
		}
		if a == TFalse && b == TTrue {
			return Not(c)
		}
		if a == TTrue {
			return BOr(c, b)
		}
		if a == TFalse {
			return BAnd(Not(c), b)
		}
		if b == TTrue {
			return BOr(Not(c), a)
		}
		if b == TFalse {
			return BAnd(c, a)
		}
	}
	if c.op == OpBNot {
		return Ite(c.args[0], b, a)
	}
	// ite(c, x, ite(c, y, z)) -> ite(c, x, z)
	if b.op == OpIte && b.args[0] == c {
		return Ite(c, a, b.args[2])
	}
	if a.op == OpIte && a.args[0] == c {
		return Ite(c, a.args[1], b)
	}
	return TS.mk(OpIte, a.sort, 0, "", 0, 0, c, a, b)
}

func Select(arr, idx *Term) *Term {
	if !arr.sort.Arr {
		panic("Select on non-array")
	}
	return TS.mk(OpSelect, BV(arr.sort.W), 0, "", 0, 0, arr, idx)
}

// Apply builds an uninterpreted function application. The signature is fixed
// by first use.
func Apply(name string, res Sort, args ...*Term) *Term {
	var sb strings.Builder
	sb.WriteString("(")
	for i, a := range args {
		if i > 0 {
			sb.WriteString(" ")
		}
		sb.WriteString(a.sort.String())
	}
	sb.WriteString(") ")
	sb.WriteString(res.String())
	sig := sb.String()
	if old, ok := TS.ufSig[name]; ok {
		if old != sig {
			panic(fmt.Sprintf("uf %s used with two signatures: %s / %s", name, old, sig))
		}
	} else {
		TS.ufSig[name] = sig
	}
	return TS.mk(OpApply, res, 0, name, 0, 0, args...)
}

// --- printing ---

func smtConst(t *Term) string {
	if t.IsBool() {
		if t.val == 1 {
			return "true"
		}
		return "false"
	}
	w := t.W()
	if w%4 == 0 {
		return fmt.Sprintf("#x%0*x", w/4, t.val)
	}
	return fmt.Sprintf("#b%0*b", w, t.val)
}

func smtName(s string) string {
	ok := true
	for _, c := range s {
		if !(c >= 'a' && c <= 'z' || c >= 'A' && c <= 'Z' || c >= '0' && c <= '9' || c == '_' || c == '.' || c == '!' || c == '$' || c == '#' || c == '@') {
			ok = false
			break
		}
	}
	if ok && len(s) > 0 && !(s[0] >= '0' && s[0] <= '9') {
		return s
	}
	return "|" + strings.ReplaceAll(strings.ReplaceAll(s, "|", "!"), "\\", "/") + "|"
}

// ref returns how term t is referred to inside another term's definition.
func (t *Term) ref() string {
	switch t.op {
	case OpConst:
		return smtConst(t)
	case OpSym:
		return smtName(t.name)
	}
	return fmt.Sprintf("t!%d", t.id)
}

// body returns the SMT-LIB body of a non-leaf term in terms of refs.
func (t *Term) body() string {
	var sb strings.Builder
	switch t.op {
	case OpZExt:
		fmt.Fprintf(&sb, "((_ zero_extend %d) %s)", t.W()-t.args[0].W(), t.args[0].ref())
	case OpSExt:
		fmt.Fprintf(&sb, "((_ sign_extend %d) %s)", t.W()-t.args[0].W(), t.args[0].ref())
	case OpExtract:
		fmt.Fprintf(&sb, "((_ extract %d %d) %s)", t.aux, t.aux2, t.args[0].ref())
	case OpApply:
		if len(t.args) == 0 {
			sb.WriteString(smtName(t.name))
		} else {
			sb.WriteString("(" + smtName(t.name))
			for _, a := range t.args {
				sb.WriteString(" " + a.ref())
			}
			sb.WriteString(")")
		}
	default:
		sb.WriteString("(" + opNames[t.op])
		for _, a := range t.args {
			sb.WriteString(" " + a.ref())
		}
		sb.WriteString(")")
	}
	return sb.String()
}

// String renders a term as a tree (debugging; bounded depth).
func (t *Term) String() string { return t.str(6) }

func (t *Term) str(d int) string {
	switch t.op {
	case OpConst, OpSym:
		return t.ref()
	}
	if d == 0 {
		return "..."
	}
	var sb strings.Builder
	switch t.op {
	case OpZExt:
		fmt.Fprintf(&sb, "(zext%d %s)", t.W(), t.args[0].str(d-1))
	case OpSExt:
		fmt.Fprintf(&sb, "(sext%d %s)", t.W(), t.args[0].str(d-1))
	case OpExtract:
		fmt.Fprintf(&sb, "(extract %d %d %s)", t.aux, t.aux2, t.args[0].str(d-1))
	case OpApply:
		sb.WriteString("(" + t.name)
		for _, a := range t.args {
			sb.WriteString(" " + a.str(d-1))
		}
		sb.WriteString(")")
	default:
		sb.WriteString("(" + opNames[t.op])
		for _, a := range t.args {
			sb.WriteString(" " + a.str(d-1))
		}
		sb.WriteString(")")
	}
	return sb.String()
}
