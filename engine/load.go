package main

import (
	"fmt"
	"go/types"
	"os"
	"path/filepath"
	"sort"
	"strconv"
	"strings"

	"golang.org/x/tools/go/packages"
	"golang.org/x/tools/go/ssa"
	"golang.org/x/tools/go/ssa/ssautil"
)

var repoDir = "/repo"

var verifDir = "/verif"

type Harness struct {
	Name     string
	Prop     string
	Tier     string // quick | thorough | both
	PkgDir   string // relative to /repo
	File     string // harness source file (under /verif/harness)
	Unwind   int
	MaxSteps int
	MaxPaths int
	Covers   []string
	Replay   string // native | none
	Timeout  int    // seconds for whole harness
	QTimeout int    // per-query ms
	Doc      string
	Fn       *ssa.Function
	Bounds   string
	Kind     string // "" or "validate"
	Stubs    map[string]string
	Restub   map[string]bool // stubs that stay in force below their own frame (only a direct call from the stub reaches the real function)
	Solver   string
	Tags     string // extra build tags for load and replay
}

type Loaded struct {
	prog       *ssa.Program
	pkg        *ssa.Package
	stubs      map[string]*ssa.Function
	restub     map[*ssa.Function]bool
	stubNames  map[string]string
	finfo      map[*ssa.Function]*funcInfo
	errStringT types.Type
	errorIface *types.Interface
	harnesses  map[string]*Harness
	known      map[string]bool
}

// scanHarnesses parses directives of every harness file under /verif/harness
// without type checking.
func scanHarnesses() ([]*Harness, error) {
	var out []*Harness
	root := filepath.Join(verifDir, "harness")
	err := filepath.Walk(root, func(path string, info os.FileInfo, err error) error {
		if err != nil || info.IsDir() || !strings.HasSuffix(path, ".go") {
			return err
		}
		rel, _ := filepath.Rel(root, filepath.Dir(path))
		src, err := os.ReadFile(path)
		if err != nil {
			return err
		}
		hs := parseHarnessFile(string(src), rel, path)
		out = append(out, hs...)
		return nil
	})
	sort.Slice(out, func(i, j int) bool { return out[i].Name < out[j].Name })
	return out, err
}

// parseHarnessFile: textual scan for doc-comment blocks preceding "func VH_...".
func parseHarnessFile(src, pkgDir, path string) []*Harness {
	var out []*Harness
	lines := strings.Split(src, "\n")
	var doc []string
	fileStubs := map[string]string{}
	for _, ln := range lines {
		t := strings.TrimSpace(ln)
		if strings.HasPrefix(t, "//verif:filestub ") {
			kv := strings.SplitN(strings.TrimPrefix(t, "//verif:filestub "), "=", 2)
			if len(kv) == 2 {
				fileStubs[strings.TrimSpace(kv[0])] = strings.TrimSpace(kv[1])
			}
			continue
		}
		if strings.HasPrefix(t, "//") {
			doc = append(doc, t)
			continue
		}
		if strings.HasPrefix(t, "func VH_") {
			name := t[5:]
			if i := strings.Index(name, "("); i >= 0 {
				name = name[:i]
			}
			h := &Harness{Name: name, PkgDir: pkgDir, File: path, Tier: "both", Unwind: 70000, MaxSteps: 20000000, MaxPaths: 200000, Replay: "native", Timeout: 600, QTimeout: 30000, Stubs: map[string]string{}}
			for k, v := range fileStubs {
				h.Stubs[k] = v
			}
			var text []string
			for _, d := range doc {
				d = strings.TrimSpace(strings.TrimPrefix(d, "//"))
				if !strings.HasPrefix(d, "verif:") {
					text = append(text, d)
					continue
				}
				kv := strings.SplitN(strings.TrimPrefix(d, "verif:"), " ", 2)
				val := ""
				if len(kv) > 1 {
					val = strings.TrimSpace(kv[1])
				}
				switch kv[0] {
				case "prop":
					h.Prop = val
				case "tier":
					h.Tier = val
				case "unwind":
					h.Unwind, _ = strconv.Atoi(val)
				case "steps":
					h.MaxSteps, _ = strconv.Atoi(val)
				case "maxpaths":
					h.MaxPaths, _ = strconv.Atoi(val)
				case "cover":
					for _, c := range strings.Split(val, ";") {
						if c = strings.TrimSpace(c); c != "" {
							h.Covers = append(h.Covers, c)
						}
					}
				case "replay":
					h.Replay = val
				case "timeout":
					h.Timeout, _ = strconv.Atoi(val)
				case "qtimeout":
					h.QTimeout, _ = strconv.Atoi(val)
				case "bounds":
					h.Bounds = val
				case "kind":
					h.Kind = val
				case "solver":
					h.Solver = val
				case "tags":
					h.Tags = val
				case "stub":
					kv := strings.SplitN(val, "=", 2)
					if len(kv) == 2 {
						h.Stubs[strings.TrimSpace(kv[0])] = strings.TrimSpace(kv[1])
					}
				case "restub":
					// like stub, but the replacement stays in force for calls made
					// further down its own call tree (scripted re-entrancy)
					kv := strings.SplitN(val, "=", 2)
					if len(kv) == 2 {
						h.Stubs[strings.TrimSpace(kv[0])] = strings.TrimSpace(kv[1])
						if h.Restub == nil {
							h.Restub = map[string]bool{}
						}
						h.Restub[strings.TrimSpace(kv[0])] = true
					}
				case "nostub":
					delete(h.Stubs, val)
				}
			}
			h.Doc = strings.Join(text, " ")
			out = append(out, h)
		}
		doc = nil
	}
	return out
}

func preludeFor(pkgName string) []byte {
	b, err := os.ReadFile(filepath.Join(verifDir, "harness", "prelude.go.tmpl"))
	if err != nil {
		panic(err)
	}
	return []byte(strings.Replace(string(b), "package PKGNAME", "package "+pkgName, 1))
}

func pkgNameOf(file string) string {
	src, _ := os.ReadFile(file)
	for _, ln := range strings.Split(string(src), "\n") {
		if strings.HasPrefix(ln, "package ") {
			return strings.TrimSpace(strings.TrimPrefix(ln, "package "))
		}
	}
	return "main"
}

// overlayFor builds the overlay map for one package directory: all harness
// files of that directory plus the prelude.
func overlayFor(pkgDir string) (map[string][]byte, string, error) {
	dir := filepath.Join(verifDir, "harness", pkgDir)
	ents, err := os.ReadDir(dir)
	if err != nil {
		return nil, "", err
	}
	ov := map[string][]byte{}
	pkgName := ""
	for _, e := range ents {
		if e.IsDir() || !strings.HasSuffix(e.Name(), ".go") {
			continue
		}
		p := filepath.Join(dir, e.Name())
		b, err := os.ReadFile(p)
		if err != nil {
			return nil, "", err
		}
		if pkgName == "" {
			pkgName = pkgNameOf(p)
		}
		ov[filepath.Join(repoDir, pkgDir, "zz_verif_"+e.Name())] = b
	}
	if pkgName == "" {
		return nil, "", fmt.Errorf("no harness files in %s", dir)
	}
	ov[filepath.Join(repoDir, pkgDir, "zz_verif_prelude.go")] = preludeFor(pkgName)
	return ov, pkgName, nil
}

func goEnv() []string {
	env := os.Environ()
	env = append(env, "GOFLAGS=-mod=mod", "GOPROXY=off", "GOTOOLCHAIN=auto", "GOARCH="+targetArch)
	return env
}

var targetArch = "amd64"

var buildTags = ""

func loadPackage(pkgDir string) (*Loaded, error) {
	ov, _, err := overlayFor(pkgDir)
	if err != nil {
		return nil, err
	}
	cfg := &packages.Config{
		Mode:    packages.LoadAllSyntax,
		Dir:     repoDir,
		Env:     goEnv(),
		Overlay: ov,
	}
	if buildTags != "" {
		cfg.BuildFlags = []string{"-tags=" + buildTags}
	}
	pkgs, err := packages.Load(cfg, "./"+pkgDir)
	if err != nil {
		return nil, err
	}
	var errs []string
	packages.Visit(pkgs, nil, func(p *packages.Package) {
		for _, e := range p.Errors {
			errs = append(errs, e.Error())
		}
	})
	if len(errs) > 0 {
		if len(errs) > 10 {
			errs = errs[:10]
		}
		return nil, fmt.Errorf("package load errors:\n%s", strings.Join(errs, "\n"))
	}
	prog, spkgs := ssautil.AllPackages(pkgs, ssa.InstantiateGenerics)
	prog.Build()
	ld := &Loaded{prog: prog, pkg: spkgs[0], stubs: map[string]*ssa.Function{}, stubNames: map[string]string{}, finfo: map[*ssa.Function]*funcInfo{}, harnesses: map[string]*Harness{}}
	if ep := prog.ImportedPackage("errors"); ep != nil {
		ld.errStringT = ep.Type("errorString").Type()
	} else {
		return nil, fmt.Errorf("package errors not loaded")
	}
	ld.errorIface = types.Universe.Lookup("error").Type().Underlying().(*types.Interface)
	return ld, nil
}

// bindStubs resolves a harness's stub directives against the loaded program.
func (ld *Loaded) bindStubs(h *Harness) error {
	ld.stubs = map[string]*ssa.Function{}
	ld.restub = map[*ssa.Function]bool{}
	if len(h.Stubs) == 0 {
		return nil
	}
	if ld.known == nil {
		ld.known = map[string]bool{}
		for fn := range ssautil.AllFunctions(ld.prog) {
			ld.known[fnKey(fn)] = true
		}
	}
	for target, repl := range h.Stubs {
		fn := ld.pkg.Func(repl)
		if fn == nil {
			return fmt.Errorf("stub function %s not found", repl)
		}
		if !ld.known[target] {
			return fmt.Errorf("stub target %q does not exist in the loaded program (refactored away?)", target)
		}
		ld.stubs[target] = fn
		if h.Restub[target] {
			ld.restub[fn] = true
		}
	}
	return nil
}
