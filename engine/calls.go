package main

import (
	"fmt"
	"go/types"
	"strings"

	"golang.org/x/tools/go/ssa"
)

func (in *Interp) prepareCall(fr *Frame, c *ssa.CallCommon) (Value, []Value) {
	var args []Value
	if c.IsInvoke() {
		recv := in.eval(fr, c.Value).(Iface)
		if recv.IsNil() {
			in.panicGo("nil dereference", "method call on nil interface ("+c.Method.Name()+")")
		}
		m := in.ld.prog.LookupMethod(recv.t, c.Method.Pkg(), c.Method.Name())
		if m == nil {
			panic(engineError{fmt.Sprintf("no method %s on %v", c.Method.Name(), recv.t)})
		}
		args = append(args, recv.v)
		for _, a := range c.Args {
			args = append(args, in.eval(fr, a))
		}
		return Func{fn: m}, args
	}
	for _, a := range c.Args {
		args = append(args, in.eval(fr, a))
	}
	return in.eval(fr, c.Value), args
}

func (in *Interp) doCall(fr *Frame, c *ssa.CallCommon) Value {
	fnv, args := in.prepareCall(fr, c)
	return in.invoke(fr, fnv, args, c)
}

func (in *Interp) invoke(fr *Frame, fnv Value, args []Value, c *ssa.CallCommon) Value {
	f, ok := fnv.(Func)
	if !ok {
		panic(engineError{fmt.Sprintf("call of non-function %T", fnv)})
	}
	if f.builtin != nil {
		return in.callBuiltin(fr, f.builtin, args, c)
	}
	if f.fn == nil {
		in.panicGo("nil dereference", "call of nil function")
	}
	return in.callFn(f.fn, args, f.bind)
}

func fnKey(fn *ssa.Function) string {
	if o := fn.Origin(); o != nil {
		return o.String()
	}
	return fn.String()
}

func (in *Interp) callFn(fn *ssa.Function, args []Value, bind []Value) Value {
	name := fnKey(fn)
	if fn.Synthetic == "package initializer" {
		// imported packages are initialised lazily (ensureInit)
		return nil
	}
	// 1. harness-directed stubs
	if st, ok := in.ld.stubs[name]; ok && !in.inStub(st) {
		in.stubsUsed[name]++
		return in.callFunction(st, args, nil)
	}
	// 2. harness intrinsics (verif*)
	if fn.Pkg != nil && strings.HasPrefix(fn.Name(), "verif") && fn.Signature.Recv() == nil {
		if r, ok := in.intrinsic(fn, args); ok {
			return r
		}
	}
	// 3. engine models of library functions
	if m, ok := libModels[name]; ok {
		in.stubsUsed[name]++
		return m(in, fn, args)
	}
	if r, ok := in.prefixModel(fn, name, args); ok {
		in.stubsUsed[name]++
		return r
	}
	if len(fn.Blocks) == 0 {
		panic(engineError{"no body and no model for " + name})
	}
	if fn.Pkg != nil && in.isHopPkg(fn.Pkg.Pkg.Path()) {
		in.ensureInit(fn.Pkg)
	}
	return in.callFunction(fn, args, bind)
}

// inStub: a stub may call the function it replaces (to wrap it).
func (in *Interp) inStub(st *ssa.Function) bool {
	if in.ld.restub[st] {
		// re-entrant stub: only the stub's own direct call is let through
		return in.top != nil && in.top.fn == st
	}
	for f := in.top; f != nil; f = f.caller {
		if f.fn == st {
			return true
		}
	}
	return false
}

func (in *Interp) results(fn *ssa.Function, tag string) Value {
	res := fn.Signature.Results()
	switch res.Len() {
	case 0:
		return nil
	case 1:
		return in.havoc(res.At(0).Type(), tag)
	}
	tp := make(Tuple, res.Len())
	for i := range tp {
		tp[i] = in.havoc(res.At(i).Type(), tag)
	}
	return tp
}

var noopPrefixes = []string{
	"github.com/sirupsen/logrus.",
	"(*github.com/sirupsen/logrus.",
	"(github.com/sirupsen/logrus.",
	"log.", "(*log.Logger).",
	"fmt.Print", "fmt.Fprint",
	"runtime.SetFinalizer", "runtime.KeepAlive", "runtime.Gosched",
	"(*sync.WaitGroup).", "(*sync.Cond).",
	"(*time.Timer).", "(*time.Ticker).",
	"os.Getenv",
	// ML-KEM public-key unpacking expands the matrix A from the seed with
	// SHAKE (unsafe, assembly); the expansion does not influence whether a key
	// is accepted, so it is skipped (the matrix stays zero).
	"(*github.com/cloudflare/circl/pke/kyber/internal/common.Poly).DeriveUniform",
	// ... and caches H(pk) with circl's own SHA3 (unsafe): skipped likewise.
	"(*github.com/cloudflare/circl/internal/sha3.State).",
}

func (in *Interp) prefixModel(fn *ssa.Function, name string, args []Value) (Value, bool) {
	for _, p := range noopPrefixes {
		if strings.HasPrefix(name, p) {
			return in.results(fn, "noop"), true
		}
	}
	if strings.HasPrefix(name, "(*sync/atomic.Pointer[") {
		p := args[0].(Ptr)
		fp := Ptr{obj: p.obj, path: appendPath(p.path, PElem{f: 2})}
		et := fn.Signature.Recv().Type().(*types.Pointer).Elem()
		_ = et
		ld := func() Value {
			v := in.load(fp, types.Typ[types.UnsafePointer])
			return v
		}
		switch fn.Name() {
		case "Load":
			return ld(), true
		case "Store":
			in.store(fp, args[1])
			return nil, true
		case "Swap":
			old := ld()
			in.store(fp, args[1])
			return old, true
		case "CompareAndSwap":
			old := ld()
			if in.p.Decide(in.valEq(old, args[1])) {
				in.store(fp, args[2])
				return TTrue, true
			}
			return TFalse, true
		}
	}
	return nil, false
}

// --- Go builtins ---

func (in *Interp) callBuiltin(fr *Frame, b *ssa.Builtin, args []Value, c *ssa.CallCommon) Value {
	switch b.Name() {
	case "len":
		switch x := args[0].(type) {
		case Slice:
			return x.lenOr0()
		case Str:
			return x.n
		case *SArr:
			return x.n
		case *Array:
			return C64(uint64(len(x.E)))
		case MapRef:
			return C64(uint64(mapLen(x.m)))
		case ChanRef:
			if x.c == nil {
				return C64(0)
			}
			return C64(uint64(len(x.c.buf)))
		case Ptr: // *array
			n := c.Args[0].Type().Underlying().(*types.Pointer).Elem().Underlying().(*types.Array).Len()
			return C64(uint64(n))
		}
	case "cap":
		switch x := args[0].(type) {
		case Slice:
			return x.capOr0()
		case *SArr:
			return x.n
		case *Array:
			return C64(uint64(len(x.E)))
		case ChanRef:
			if x.c == nil {
				return C64(0)
			}
			return C64(uint64(x.c.cap))
		case Ptr:
			n := c.Args[0].Type().Underlying().(*types.Pointer).Elem().Underlying().(*types.Array).Len()
			return C64(uint64(n))
		}
	case "append":
		return in.appendBuiltin(args[0].(Slice), args[1], c.Args[0].Type())
	case "copy":
		return in.copyBuiltin(args[0].(Slice), args[1])
	case "delete":
		in.mapDelete(args[0].(MapRef).m, args[1])
		return nil
	case "close":
		ch := args[0].(ChanRef)
		if ch.c == nil {
			in.panicGo("close of nil channel", "")
		}
		if ch.c.closed {
			in.panicGo("close of closed channel", "")
		}
		ch.c.closed = true
		return nil
	case "print", "println":
		return nil
	case "recover":
		return Iface{}
	case "min", "max":
		r := args[0].(*Term)
		signed := isSigned(c.Args[0].Type())
		for _, a := range args[1:] {
			t := a.(*Term)
			var lt *Term
			if signed {
				lt = SLt(t, r)
			} else {
				lt = ULt(t, r)
			}
			if b.Name() == "max" {
				lt = Not(BOr(lt, Eq(t, r)))
				// t > r
			}
			r = Ite(lt, t, r)
		}
		return r
	case "clear":
		switch x := args[0].(type) {
		case Slice:
			if x.obj == nil {
				return nil
			}
			et := c.Args[0].Type().Underlying().(*types.Slice).Elem()
			switch a := in.arrayAt(x.obj, x.path).(type) {
			case *SArr:
				a.copyFrom(x.off, &ropeConst{Const(a.w, 0)}, C64(0), x.len)
			case *Array:
				off, n := in.p.Concretize(x.off, "clear"), in.p.Concretize(x.len, "clear")
				for i := uint64(0); i < n; i++ {
					a.E[off+i] = zeroValue(et)
				}
			}
			return nil
		case MapRef:
			if x.m != nil {
				for _, e := range x.m.entries {
					e.dead = true
				}
			}
			return nil
		}
	case "ssa:wrapnilchk":
		p := args[0].(Ptr)
		if p.IsNil() {
			in.panicGo("nil dereference", "value method called via nil pointer")
		}
		return args[0]
	}
	panic(engineError{fmt.Sprintf("builtin %s on %T unsupported", b.Name(), args[0])})
}

func (in *Interp) sarrOf(s Slice) *SArr {
	a, ok := in.arrayAt(s.obj, s.path).(*SArr)
	if !ok {
		panic(engineError{"expected scalar array behind slice"})
	}
	return a
}

func (in *Interp) appendBuiltin(s Slice, more Value, st types.Type) Value {
	et := st.Underlying().(*types.Slice).Elem()
	w := intWidth(et)
	if w > 0 {
		var srcR Rope
		var srcOff, n *Term
		switch m := more.(type) {
		case Slice:
			if m.obj == nil {
				return s
			}
			srcR, srcOff, n = in.sarrOf(m).r, m.off, m.len
		case Str:
			srcR, srcOff, n = m.r, m.off, m.n
		default:
			panic(engineError{"append: bad second operand"})
		}
		if c, ok := n.ConstVal(); ok && c == 0 {
			return s
		}
		oldLen := s.lenOr0()
		newLen := Add(oldLen, n)
		if s.obj != nil && in.p.Decide(ULe(newLen, s.cap)) {
			a := in.sarrOf(s)
			a.copyFrom(Add(s.off, oldLen), srcR, srcOff, n)
			return Slice{obj: s.obj, path: s.path, off: s.off, len: newLen, cap: s.cap}
		}
		newCap := newLen
		if nl, ok := newLen.ConstVal(); ok {
			if oc, ok := s.capOr0().ConstVal(); ok && 2*oc > nl {
				newCap = C64(2 * oc)
			}
		}
		a := newSArrZero(w, newCap)
		if s.obj != nil {
			a.copyFrom(C64(0), in.sarrOf(s).r, s.off, oldLen)
		}
		a.copyFrom(oldLen, srcR, srcOff, n)
		o := in.newObject(st, a, "append")
		return Slice{obj: o, off: C64(0), len: newLen, cap: newCap}
	}
	m := more.(Slice)
	if m.obj == nil {
		return s
	}
	mo := in.p.Concretize(m.off, "append src off")
	mn := in.p.Concretize(m.len, "append src len")
	if mn == 0 {
		return s
	}
	src := in.arrayAt(m.obj, m.path).(*Array)
	var so, sl, sc uint64
	if s.obj != nil {
		so, sl, sc = in.p.Concretize(s.off, "append off"), in.p.Concretize(s.len, "append len"), in.p.Concretize(s.cap, "append cap")
	}
	if s.obj != nil && sl+mn <= sc {
		dst := in.arrayAt(s.obj, s.path).(*Array)
		vals := make([]Value, mn)
		for i := uint64(0); i < mn; i++ {
			vals[i] = copyVal(src.E[mo+i])
		}
		for i := uint64(0); i < mn; i++ {
			dst.E[so+sl+i] = vals[i]
		}
		return Slice{obj: s.obj, path: s.path, off: s.off, len: C64(sl + mn), cap: s.cap}
	}
	nc := sl + mn
	if 2*sc > nc {
		nc = 2 * sc
	}
	a := &Array{E: make([]Value, nc)}
	if s.obj != nil {
		old := in.arrayAt(s.obj, s.path).(*Array)
		for i := uint64(0); i < sl; i++ {
			a.E[i] = copyVal(old.E[so+i])
		}
	}
	for i := uint64(0); i < mn; i++ {
		a.E[sl+i] = copyVal(src.E[mo+i])
	}
	for i := sl + mn; i < nc; i++ {
		a.E[i] = zeroValue(et)
	}
	o := in.newObject(st, a, "append")
	return Slice{obj: o, off: C64(0), len: C64(sl + mn), cap: C64(nc)}
}

func umin(a, b *Term) *Term { return Ite(ULt(a, b), a, b) }

func (in *Interp) copyBuiltin(dst Slice, src Value) Value {
	if dst.obj == nil {
		return C64(0)
	}
	switch a := in.arrayAt(dst.obj, dst.path).(type) {
	case *SArr:
		var srcR Rope
		var srcOff, sn *Term
		switch m := src.(type) {
		case Slice:
			if m.obj == nil {
				return C64(0)
			}
			srcR, srcOff, sn = in.sarrOf(m).r, m.off, m.len
		case Str:
			srcR, srcOff, sn = m.r, m.off, m.n
		}
		n := umin(dst.len, sn)
		a.copyFrom(dst.off, srcR, srcOff, n)
		return n
	case *Array:
		m := src.(Slice)
		if m.obj == nil {
			return C64(0)
		}
		sa := in.arrayAt(m.obj, m.path).(*Array)
		do, dl := in.p.Concretize(dst.off, "copy"), in.p.Concretize(dst.len, "copy")
		so, sl := in.p.Concretize(m.off, "copy"), in.p.Concretize(m.len, "copy")
		n := dl
		if sl < n {
			n = sl
		}
		vals := make([]Value, n)
		for i := uint64(0); i < n; i++ {
			vals[i] = copyVal(sa.E[so+i])
		}
		for i := uint64(0); i < n; i++ {
			a.E[do+i] = vals[i]
		}
		return C64(n)
	}
	panic(engineError{"copy: unsupported destination"})
}
