package main

import (
	"fmt"
	"go/types"

	"golang.org/x/tools/go/ssa"
)

// Value is one of: *Term (bool / integers / floats as opaque BV64), *Struct,
// *Array, *SArr, Ptr, Slice, Str, Iface, Func, MapRef, ChanRef, Tuple.
type Value interface{}

type Struct struct{ F []Value }

// Array: non-scalar element arrays with concrete length.
type Array struct{ E []Value }

type PElem struct {
	f   int   // field index, or -1 for an array index
	idx *Term // BV64 index when f == -1
}

type Object struct {
	id     int
	v      Value
	typ    types.Type
	name   string
	opaque bool // contents unknown (stubbed-world object)
}

type Ptr struct {
	obj  *Object
	path []PElem
	fn   *ssa.Function // non-nil: pointer-like handle to nothing (unused)
}

func (p Ptr) IsNil() bool { return p.obj == nil }

type Slice struct {
	obj           *Object
	path          []PElem // to the array inside obj
	off, len, cap *Term   // BV64
}

func (s Slice) IsNil() bool { return s.obj == nil }

type Str struct {
	r      Rope
	off, n *Term
}

type Iface struct {
	t types.Type
	v Value
}

func (i Iface) IsNil() bool { return i.t == nil }

type Func struct {
	fn      *ssa.Function
	bind    []Value
	builtin *ssa.Builtin
}

func (f Func) IsNil() bool { return f.fn == nil && f.builtin == nil }

type MapEntry struct {
	k, v Value
	dead bool
}

type MapObj struct {
	id      int
	entries []*MapEntry
	kt, vt  types.Type
}

type MapRef struct{ m *MapObj }

type ChanObj struct {
	id     int
	buf    []Value
	cap    int
	closed bool
	et     types.Type
}

type ChanRef struct{ c *ChanObj }

type Tuple []Value

// map iterator
type MapIter struct {
	m   *MapObj
	pos int
	str *Str // string range
	it  int
}

func strLit(s string) Str {
	return Str{r: &ropeLit{b: []byte(s)}, off: C64(0), n: C64(uint64(len(s)))}
}

// concreteStr returns the Go string if the Str is fully concrete.
func concreteStr(s Str) (string, bool) {
	n, ok := s.n.ConstVal()
	if !ok {
		return "", false
	}
	if n > 1<<20 {
		return "", false
	}
	off, ok := s.off.ConstVal()
	if !ok {
		return "", false
	}
	b := make([]byte, n)
	for i := uint64(0); i < n; i++ {
		c, ok := s.r.sel(C64(off + i)).ConstVal()
		if !ok {
			return "", false
		}
		b[i] = byte(c)
	}
	return string(b), true
}

func basicWidth(b *types.Basic) int {
	switch b.Kind() {
	case types.Int8, types.Uint8:
		return 8
	case types.Int16, types.Uint16:
		return 16
	case types.Int32, types.Uint32:
		return 32
	case types.Int, types.Uint, types.Int64, types.Uint64, types.Uintptr, types.UntypedInt, types.UntypedRune:
		return 64
	case types.Float32, types.Float64, types.UntypedFloat:
		return 64
	}
	return 0
}

func isSigned(t types.Type) bool {
	if b, ok := t.Underlying().(*types.Basic); ok {
		return b.Info()&types.IsInteger != 0 && b.Info()&types.IsUnsigned == 0
	}
	return false
}

func isFloat(t types.Type) bool {
	if b, ok := t.Underlying().(*types.Basic); ok {
		return b.Info()&types.IsFloat != 0
	}
	return false
}

func isInteger(t types.Type) bool {
	if b, ok := t.Underlying().(*types.Basic); ok {
		return b.Info()&types.IsInteger != 0
	}
	return false
}

// intWidth returns the bit width if t is an integer type, else 0.
func intWidth(t types.Type) int {
	if b, ok := t.Underlying().(*types.Basic); ok && b.Info()&types.IsInteger != 0 {
		return basicWidth(b)
	}
	return 0
}

func isString(t types.Type) bool {
	if b, ok := t.Underlying().(*types.Basic); ok {
		return b.Info()&types.IsString != 0
	}
	return false
}

func isBoolT(t types.Type) bool {
	if b, ok := t.Underlying().(*types.Basic); ok {
		return b.Info()&types.IsBoolean != 0
	}
	return false
}

func zeroValue(t types.Type) Value {
	switch u := t.Underlying().(type) {
	case *types.Basic:
		switch {
		case u.Info()&types.IsBoolean != 0:
			return TFalse
		case u.Info()&types.IsString != 0:
			return strLit("")
		case u.Kind() == types.UnsafePointer:
			return Ptr{}
		case u.Kind() == types.UntypedNil:
			return Ptr{}
		case u.Info()&types.IsComplex != 0:
			panic(engineError{"complex numbers unsupported"})
		default:
			return Const(basicWidth(u), 0)
		}
	case *types.Pointer:
		return Ptr{}
	case *types.Slice:
		return Slice{}
	case *types.Map:
		return MapRef{}
	case *types.Chan:
		return ChanRef{}
	case *types.Signature:
		return Func{}
	case *types.Interface:
		return Iface{}
	case *types.Struct:
		s := &Struct{F: make([]Value, u.NumFields())}
		for i := range s.F {
			s.F[i] = zeroValue(u.Field(i).Type())
		}
		return s
	case *types.Array:
		if w := intWidth(u.Elem()); w > 0 {
			return newSArrZero(w, C64(uint64(u.Len())))
		}
		if u.Len() > 1<<16 {
			panic(engineError{fmt.Sprintf("array of %d non-scalar elements", u.Len())})
		}
		a := &Array{E: make([]Value, u.Len())}
		for i := range a.E {
			a.E[i] = zeroValue(u.Elem())
		}
		return a
	case *types.Tuple:
		tp := make(Tuple, u.Len())
		for i := range tp {
			tp[i] = zeroValue(u.At(i).Type())
		}
		return tp
	}
	panic(engineError{fmt.Sprintf("zeroValue: unsupported type %v", t)})
}

func copyVal(v Value) Value {
	switch x := v.(type) {
	case *Struct:
		n := &Struct{F: make([]Value, len(x.F))}
		for i, f := range x.F {
			n.F[i] = copyVal(f)
		}
		return n
	case *Array:
		n := &Array{E: make([]Value, len(x.E))}
		for i, f := range x.E {
			n.E[i] = copyVal(f)
		}
		return n
	case *SArr:
		return x.clone()
	case Tuple:
		n := make(Tuple, len(x))
		for i, f := range x {
			n[i] = copyVal(f)
		}
		return n
	}
	return v
}

func pathEq(a, b []PElem) *Term {
	if len(a) != len(b) {
		return TFalse
	}
	r := TTrue
	for i := range a {
		if a[i].f != b[i].f {
			return TFalse
		}
		if a[i].f == -1 {
			r = BAnd(r, Eq(a[i].idx, b[i].idx))
		}
	}
	return r
}

func describe(v Value) string {
	switch x := v.(type) {
	case *Term:
		return x.String()
	case *Struct:
		return fmt.Sprintf("struct%v", x.F)
	case Ptr:
		if x.obj == nil {
			return "nil"
		}
		return fmt.Sprintf("&obj%d%v", x.obj.id, x.path)
	case Slice:
		if x.obj == nil {
			return "nilslice"
		}
		return fmt.Sprintf("slice(obj%d off=%v len=%v cap=%v)", x.obj.id, x.off, x.len, x.cap)
	case Str:
		if s, ok := concreteStr(x); ok {
			return fmt.Sprintf("%q", s)
		}
		return fmt.Sprintf("str(len=%v)", x.n)
	case Iface:
		if x.t == nil {
			return "nil-iface"
		}
		return fmt.Sprintf("iface(%v)", x.t)
	}
	return fmt.Sprintf("%T", v)
}
