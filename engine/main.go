package main

import (
	"encoding/hex"
	"encoding/json"
	"flag"
	"fmt"
	"os"
	"os/exec"
	"path/filepath"
	"runtime/debug"
	"runtime/pprof"
	"sort"
	"strconv"
	"strings"
	"sync"
	"time"
)

func main() {
	debug.SetGCPercent(400)
	if len(os.Args) < 2 {
		fmt.Fprintln(os.Stderr, "usage: gosym check <PROP> [--tier quick|thorough] | worker ... | list")
		os.Exit(2)
	}
	if v := os.Getenv("VERIF_DIR"); v != "" {
		verifDir = v
	}
	if v := os.Getenv("VERIF_REPO"); v != "" {
		// development aid only (running against a scratch worktree); the
		// registered commands never set it
		repoDir = v
	}
	switch os.Args[1] {
	case "check":
		os.Exit(cmdCheck(os.Args[2:]))
	case "worker":
		os.Exit(cmdWorker(os.Args[2:]))
	case "replay":
		os.Exit(cmdReplay(os.Args[2:]))
	case "list":
		hs, err := scanHarnesses()
		if err != nil {
			fmt.Fprintln(os.Stderr, err)
			os.Exit(2)
		}
		for _, h := range hs {
			fmt.Printf("%s\t%s\t%s\t%s\n", h.Prop, h.Tier, h.PkgDir, h.Name)
		}
	default:
		fmt.Fprintln(os.Stderr, "unknown command")
		os.Exit(2)
	}
}

// ---------------- worker ----------------

func cmdWorker(args []string) int {
	fs := flag.NewFlagSet("worker", flag.ExitOnError)
	pkg := fs.String("pkg", "", "package dir relative to /repo")
	names := fs.String("harness", "", "comma separated harness names")
	out := fs.String("out", "", "output json")
	solver := fs.String("solver", "z3", "z3|z3-new|cvc5")
	tier := fs.String("tier", "quick", "")
	arch := fs.String("arch", "", "GOARCH override")
	tags := fs.String("tags", "", "extra build tags")
	fs.Parse(args)
	buildTags = *tags
	if *arch != "" {
		targetArch = *arch
	}
	if pf := os.Getenv("VERIF_PPROF"); pf != "" {
		f, _ := os.Create(pf)
		pprof.StartCPUProfile(f)
		defer pprof.StopCPUProfile()
	}
	if os.Getenv("VERIF_FORKS") != "" {
		forkSites = map[string]int{}
		defer func() {
			type kv struct {
				k string
				v int
			}
			var l []kv
			for k, v := range forkSites {
				l = append(l, kv{k, v})
			}
			sort.Slice(l, func(i, j int) bool { return l[i].v > l[j].v })
			for i, e := range l {
				if i >= 25 {
					break
				}
				fmt.Fprintf(os.Stderr, "FORKS %6d %s\n", e.v, e.k)
			}
		}()
	}
	all, err := scanHarnesses()
	if err != nil {
		fmt.Fprintln(os.Stderr, err)
		return 2
	}
	want := map[string]bool{}
	for _, n := range strings.Split(*names, ",") {
		want[n] = true
	}
	var results []*HarnessResult
	t0 := time.Now()
	ld, err := loadPackage(*pkg)
	loadS := time.Since(t0).Seconds()
	for _, h := range all {
		if !want[h.Name] || h.PkgDir != *pkg {
			continue
		}
		res := &HarnessResult{Name: h.Name, PathsByStatus: map[string]int{}, Covers: map[string]int{}, Funcs: map[string]int{}, Stubs: map[string]int{}, CoverExpected: h.Covers, Unwind: h.Unwind}
		results = append(results, res)
		if err != nil {
			res.Inconclusive = append(res.Inconclusive, "load: "+err.Error())
			continue
		}
		fn := ld.pkg.Func(h.Name)
		if fn == nil {
			res.Inconclusive = append(res.Inconclusive, "harness function not found after load")
			continue
		}
		h.Fn = fn
		if err := ld.bindStubs(h); err != nil {
			res.Inconclusive = append(res.Inconclusive, err.Error())
			continue
		}
		s, err2 := NewSolver(*solver, h.QTimeout)
		if err2 != nil {
			res.Inconclusive = append(res.Inconclusive, err2.Error())
			continue
		}
		if v := os.Getenv("VERIF_TIMEOUT"); v != "" {
			h.Timeout, _ = strconv.Atoi(v)
		}
		timeout := time.Duration(h.Timeout) * time.Second
		if *tier == "thorough" {
			timeout *= 4
		}
		ex := &Explorer{solver: s, res: res, maxPaths: h.MaxPaths, seenViol: map[string]bool{}, start: time.Now(), deadline: time.Now().Add(timeout), qTimeoutMs: h.QTimeout}
		func() {
			defer func() {
				if r := recover(); r != nil {
					if e, ok := r.(engineError); ok {
						res.Inconclusive = append(res.Inconclusive, "engine: "+e.msg)
						return
					}
					panic(r)
				}
			}()
			ex.Run(h, ld)
		}()
		s.Close()
		if solverErrorsSeen > 0 {
			res.Inconclusive = append(res.Inconclusive, fmt.Sprintf("%d solver error lines", solverErrorsSeen))
			solverErrorsSeen = 0
		}
		res.Inconclusive = dedup(res.Inconclusive)
	}
	_ = loadS
	b, _ := json.MarshalIndent(results, "", " ")
	if *out == "" {
		os.Stdout.Write(b)
	} else {
		os.WriteFile(*out, b, 0644)
	}
	return 0
}

func dedup(a []string) []string {
	seen := map[string]bool{}
	var out []string
	for _, s := range a {
		if !seen[s] {
			seen[s] = true
			out = append(out, s)
		}
	}
	return out
}

// ---------------- check driver ----------------

type knownFinding struct {
	Prop, Harness, Label, Desc string
	Fixed                      bool
}

func loadKnownFindings() []knownFinding {
	b, err := os.ReadFile(filepath.Join(verifDir, "KNOWN_FINDINGS.txt"))
	if err != nil {
		return nil
	}
	var out []knownFinding
	for _, ln := range strings.Split(string(b), "\n") {
		ln = strings.TrimSpace(ln)
		if !strings.HasPrefix(ln, "finding:") {
			continue
		}
		// finding: property=C18 harness=VH_x label="..." :: description
		parts := strings.SplitN(strings.TrimPrefix(ln, "finding:"), "::", 2)
		kf := knownFinding{}
		if len(parts) == 2 {
			kf.Desc = strings.TrimSpace(parts[1])
		}
		rest := strings.TrimSpace(parts[0])
		if i := strings.Index(rest, "label="); i >= 0 {
			lab := strings.TrimSpace(rest[i+6:])
			if u, err := strconv.Unquote(lab); err == nil {
				lab = u
			}
			kf.Label = lab
			rest = rest[:i]
		}
		for _, f := range strings.Fields(rest) {
			kv := strings.SplitN(f, "=", 2)
			if len(kv) != 2 {
				continue
			}
			switch kv[0] {
			case "property":
				kf.Prop = kv[1]
			case "harness":
				kf.Harness = kv[1]
			}
		}
		out = append(out, kf)
	}
	return out
}

func cmdCheck(args []string) int {
	if len(args) < 1 {
		fmt.Fprintln(os.Stderr, "check needs a property id")
		return 2
	}
	prop := args[0]
	fs := flag.NewFlagSet("check", flag.ExitOnError)
	tier := fs.String("tier", "quick", "quick|thorough")
	only := fs.String("only", "", "run only harnesses whose name contains this")
	defSolver := "z3"
	if _, err := exec.LookPath("z3-new"); err == nil {
		defSolver = "z3-new" // z3 5.1: 2-4x faster than 4.8.12 on these queries
	}
	solver := fs.String("solver", defSolver, "")
	jobs := fs.Int("j", 14, "parallel workers")
	noEvidence := fs.Bool("no-evidence", false, "")
	fs.Parse(args[1:])
	if t := os.Getenv("VERIF_TIER"); t != "" && (t == "quick" || t == "thorough") {
		// explicit flag wins only when given; env is a default
		set := false
		fs.Visit(func(f *flag.Flag) {
			if f.Name == "tier" {
				set = true
			}
		})
		if !set {
			*tier = t
		}
	}
	seed := 0
	if s := os.Getenv("VERIF_SEED"); s != "" {
		seed, _ = strconv.Atoi(s)
	}
	t0 := time.Now()
	all, err := scanHarnesses()
	if err != nil {
		fmt.Fprintln(os.Stderr, err)
		return 2
	}
	var sel []*Harness
	for _, h := range all {
		if h.Prop != prop {
			continue
		}
		if *only != "" && !strings.Contains(h.Name, *only) {
			continue
		}
		if h.Tier == "both" || h.Tier == *tier || (*tier == "thorough" && h.Tier == "quick+") {
			sel = append(sel, h)
		}
	}
	if len(sel) == 0 {
		fmt.Fprintf(os.Stderr, "no harness for %s tier %s\n", prop, *tier)
		return 2
	}
	tmp, err := os.MkdirTemp("", "gosym-"+prop+"-")
	if err != nil {
		fmt.Fprintln(os.Stderr, err)
		return 2
	}
	defer os.RemoveAll(tmp)
	self, _ := os.Executable()

	// one worker per harness
	type job struct {
		h   *Harness
		out string
	}
	var jobsL []job
	for i, h := range sel {
		jobsL = append(jobsL, job{h, filepath.Join(tmp, fmt.Sprintf("r%d.json", i))})
	}
	sem := make(chan struct{}, *jobs)
	var wg sync.WaitGroup
	var mu sync.Mutex
	var results []*HarnessResult
	hmap := map[string]*Harness{}
	for _, j := range jobsL {
		hmap[j.h.Name] = j.h
		wg.Add(1)
		go func(j job) {
			defer wg.Done()
			sem <- struct{}{}
			defer func() { <-sem }()
			useSolver := *solver
			if j.h.Solver != "" {
				useSolver = j.h.Solver
			}
			wargs := []string{"worker", "--pkg", j.h.PkgDir, "--harness", j.h.Name, "--out", j.out, "--solver", useSolver, "--tier", *tier}
			if j.h.Tags != "" {
				wargs = append(wargs, "--tags", j.h.Tags)
			}
			if strings.Contains(j.h.Bounds, "GOARCH=arm64") {
				wargs = append(wargs, "--arch", "arm64")
			}
			cmd := exec.Command(self, wargs...)
			cmd.Stderr = os.Stderr
			cmd.Env = os.Environ()
			err := cmd.Run()
			var rs []*HarnessResult
			if b, e := os.ReadFile(j.out); e == nil {
				json.Unmarshal(b, &rs)
			}
			if len(rs) == 0 {
				rs = []*HarnessResult{{Name: j.h.Name, Inconclusive: []string{fmt.Sprintf("worker failed: %v", err)}}}
			}
			mu.Lock()
			results = append(results, rs...)
			mu.Unlock()
		}(j)
	}
	wg.Wait()
	sort.Slice(results, func(i, j int) bool { return results[i].Name < results[j].Name })

	// replay and classify
	known := loadKnownFindings()
	exit := 0
	var violLines, knownLines, inconcl []string
	nViol := 0
	replayed := 0
	for _, r := range results {
		for _, m := range r.Inconclusive {
			inconcl = append(inconcl, r.Name+": "+m)
		}
		for vi, v := range r.Violations {
			h := hmap[r.Name]
			rp := filepath.Join(verifDir, "replays", prop, fmt.Sprintf("%s-%d.json", r.Name, vi))
			os.MkdirAll(filepath.Dir(rp), 0755)
			writeReplay(rp, prop, h, v)
			confirmed, detail := true, "replay=none (stubs not realisable natively)"
			if h.Replay == "native" {
				confirmed, detail = runReplay(rp, h, v, tmp)
				replayed++
			}
			appendReplayDetail(rp, detail)
			if !confirmed {
				inconcl = append(inconcl, fmt.Sprintf("%s: counterexample for %q did not reproduce natively (%s)", r.Name, v.Label, detail))
				continue
			}
			isKnown := false
			for _, k := range known {
				if k.Prop == prop && k.Harness == r.Name && k.Label == v.Label {
					knownLines = append(knownLines, fmt.Sprintf("KNOWN-FINDING: property=%s %s [%s %q]", prop, k.Desc, r.Name, v.Label))
					isKnown = true
					break
				}
			}
			if !isKnown {
				nViol++
				violLines = append(violLines, fmt.Sprintf("VIOLATION property=%s replay=%s  (%s: %s %s)", prop, rp, r.Name, v.Label, v.Msg))
			}
		}
	}
	for _, l := range knownLines {
		fmt.Println(l)
	}
	for _, l := range violLines {
		fmt.Println(l)
	}
	for _, l := range inconcl {
		fmt.Println("INCONCLUSIVE " + l)
	}
	if nViol > 0 {
		exit = 1
	} else if len(inconcl) > 0 {
		exit = 2
	}
	wall := time.Since(t0).Seconds()
	if !*noEvidence {
		writeEvidence(prop, *tier, seed, results, hmap, nViol, len(knownLines), inconcl, replayed, wall, *solver)
	}
	// summary
	for _, r := range results {
		fmt.Printf("  %-44s paths=%d %v obligations=%d discharged=%d violations=%d queries=%d solver=%.1fs wall=%.1fs\n", r.Name, r.Paths, r.PathsByStatus, r.Obligations, r.Discharged, len(r.Violations), r.SolverQueries, r.SolverTime, r.Wall)
	}
	fmt.Printf("%s tier=%s: %d harnesses, exit %d, %.1fs\n", prop, *tier, len(results), exit, wall)
	return exit
}

type replayFile struct {
	Property string      `json:"property"`
	Harness  string      `json:"harness"`
	PkgDir   string      `json:"pkg_dir"`
	Label    string      `json:"label"`
	Kind     string      `json:"kind"`
	Msg      string      `json:"msg"`
	Trace    []string    `json:"trace"`
	Model    []replayVal `json:"model"`
	Native   string      `json:"native_replay,omitempty"`
	HowTo    string      `json:"how_to_replay"`
}

type replayVal struct {
	Tag   string `json:"tag"`
	Kind  string `json:"kind"`
	Value uint64 `json:"value"`
	Bytes string `json:"bytes,omitempty"`
}

func writeReplay(path, prop string, h *Harness, v *Violation) {
	rf := replayFile{Property: prop, Harness: h.Name, PkgDir: h.PkgDir, Label: v.Label, Kind: v.Kind, Msg: v.Msg, Trace: v.Trace,
		HowTo: fmt.Sprintf("%s/bin/gosym-replay %s", verifDir, path)}
	for _, n := range v.Model {
		rv := replayVal{Tag: n.Tag, Kind: n.Kind, Value: n.Value}
		if n.Kind == "bytes" {
			rv.Bytes = hex.EncodeToString(n.Bytes)
		}
		rf.Model = append(rf.Model, rv)
	}
	b, _ := json.MarshalIndent(rf, "", " ")
	os.WriteFile(path, b, 0644)
}

func appendReplayDetail(path, detail string) {
	b, err := os.ReadFile(path)
	if err != nil {
		return
	}
	var rf replayFile
	if json.Unmarshal(b, &rf) != nil {
		return
	}
	rf.Native = detail
	b, _ = json.MarshalIndent(rf, "", " ")
	os.WriteFile(path, b, 0644)
}

// runReplay runs the harness natively with the model's values.
func runReplay(modelPath string, h *Harness, v *Violation, tmp string) (bool, string) {
	ov, pkgName, err := overlayFor(h.PkgDir)
	if err != nil {
		return false, err.Error()
	}
	dir, _ := os.MkdirTemp(tmp, "replay-")
	repl := map[string]string{}
	i := 0
	for virt, content := range ov {
		real := filepath.Join(dir, fmt.Sprintf("f%d.go", i))
		i++
		os.WriteFile(real, content, 0644)
		repl[virt] = real
	}
	test := fmt.Sprintf(`package %s

import "testing"

func TestVerifReplay(t *testing.T) { verifReplayRun(t, %q, %s) }
`, pkgName, h.Name, h.Name)
	tf := filepath.Join(dir, "replay_test.go")
	os.WriteFile(tf, []byte(test), 0644)
	repl[filepath.Join(repoDir, h.PkgDir, "zz_verif_replay_test.go")] = tf
	ovb, _ := json.Marshal(map[string]interface{}{"Replace": repl})
	ovf := filepath.Join(dir, "overlay.json")
	os.WriteFile(ovf, ovb, 0644)
	nativeLimit := "120s"
	if v.Kind == "unwind" || v.Kind == "blocked" {
		nativeLimit = "30s" // these reproduce as a timeout
	}
	targs := []string{"test", "-vet=off", "-count=1", "-timeout", nativeLimit, "-overlay", ovf, "-run", "^TestVerifReplay$"}
	if h.Tags != "" {
		targs = append(targs, "-tags", h.Tags)
	}
	targs = append(targs, "./"+h.PkgDir)
	cmd := exec.Command("go", targs...)
	cmd.Dir = repoDir
	cmd.Env = append(goEnv(), "VERIF_MODEL="+modelPath, "GOARCH=")
	outB, _ := cmd.CombinedOutput()
	out := string(outB)
	switch {
	case strings.Contains(out, "VERIF-REPRODUCED"):
		line := ""
		for _, l := range strings.Split(out, "\n") {
			if strings.Contains(l, "VERIF-REPRODUCED") {
				line = strings.TrimSpace(l)
				break
			}
		}
		// an assert violation must reproduce the same label; a panic any panic
		if v.Kind == "assert" && !strings.Contains(out, "VERIF-REPRODUCED assert: "+v.Label) {
			return false, "different failure natively: " + line
		}
		return true, line
	case v.Kind == "blocked" && strings.Contains(out, "panic: test timed out"):
		return true, "native run deadlocked (test timed out)"
	case v.Kind == "unwind" && strings.Contains(out, "panic: test timed out"):
		return true, "native run did not terminate (test timed out)"
	case strings.Contains(out, "VERIF-NOT-REPRODUCED"):
		return false, "native run passed"
	case strings.Contains(out, "VERIF-ASSUME-FAILED"):
		return false, "native run left the assumed region"
	}
	tail := out
	if len(tail) > 600 {
		tail = tail[len(tail)-600:]
	}
	return false, "native replay inconclusive: " + tail
}

// ---------------- evidence ----------------

func writeEvidence(prop, tier string, seed int, results []*HarnessResult, hmap map[string]*Harness, nViol, nKnown int, inconcl []string, replayed int, wall float64, solver string) {
	paths, obligations, discharged, unknown, queries := 0, 0, 0, 0, 0
	var steps int64
	solverTime := 0.0
	funcs := map[string]int{}
	stubs := map[string]int{}
	var samples []interface{}
	var harnessInfo []map[string]interface{}
	assum := map[string]bool{}
	covers := map[string]int{}
	distinct := 0
	for _, r := range results {
		paths += r.Paths
		obligations += r.Obligations
		discharged += r.Discharged
		unknown += r.Unknown
		queries += r.SolverQueries
		steps += r.Steps
		solverTime += r.SolverTime
		for f, n := range r.Funcs {
			funcs[f] = n
		}
		for f, n := range r.Stubs {
			stubs[f] += n
		}
		for c, n := range r.Covers {
			covers[r.Name+":"+c] = n
		}
		for _, a := range r.Assumptions {
			assum[a] = true
		}
		// distinct non-trivial cases: feasible paths that ran to a verdict,
		// plus obligations decided on them
		distinct += r.PathsByStatus["ok"] + r.PathsByStatus["panic"] + r.PathsByStatus["blocked"]
		h := hmap[r.Name]
		hi := map[string]interface{}{
			"harness": r.Name, "paths": r.Paths, "paths_by_status": r.PathsByStatus, "obligations": r.Obligations,
			"discharged_unsat": r.Discharged, "unknown": r.Unknown, "violations": len(r.Violations),
			"solver_queries": r.SolverQueries, "solver_time_s": round3(r.SolverTime), "solver_max_query_s": round3(r.SolverMax),
			"ssa_instructions_executed": r.Steps, "wall_s": round3(r.Wall), "cover": r.Covers,
		}
		if h != nil {
			hi["what"] = h.Doc
			hi["bounds"] = h.Bounds
			hi["unwind"] = h.Unwind
			hi["package"] = h.PkgDir
			hi["stubs_by_directive"] = h.Stubs
		}
		harnessInfo = append(harnessInfo, hi)
		for _, s := range r.Samples {
			if len(samples) < 12 {
				samples = append(samples, r.Name+" "+s)
			}
		}
		for _, v := range r.Violations {
			if len(samples) < 16 {
				samples = append(samples, map[string]interface{}{"harness": r.Name, "counterexample_for": v.Label, "kind": v.Kind})
			}
		}
	}
	var fl []string
	for f, n := range funcs {
		if strings.HasPrefix(f, "hop.computer/hop") || strings.HasPrefix(f, "(*hop.computer/hop") || strings.HasPrefix(f, "(hop.computer/hop") {
			if n > 0 && !strings.Contains(f, ".verif") && !strings.Contains(f, ".VH_") && !strings.HasSuffix(f, ".init") {
				fl = append(fl, fmt.Sprintf("%s [%d SSA instrs]", f, n))
			}
		}
	}
	sort.Strings(fl)
	var sl []string
	for f, n := range stubs {
		sl = append(sl, fmt.Sprintf("%s x%d", f, n))
	}
	sort.Strings(sl)
	var al []string
	for a := range assum {
		al = append(al, a)
	}
	sort.Strings(al)
	al = append(al, "go/ssa translation of the current /repo tree; the engine's SSA interpreter and library models (listed under coverage.models_used); "+solver)
	if distinct < 2 {
		distinct = paths
	}
	ev := map[string]interface{}{
		"property_id": prop,
		"tier":        tier,
		"seed":        seed,
		"level":       "model_checking",
		"wall_s":      round3(wall),
		"violations":  nViol,
		"assumptions": al,
		"coverage": map[string]interface{}{
			"explanation": "Bounded symbolic execution of the real Go code (go/ssa of /repo's current working tree, re-loaded on this run) with an SMT solver deciding every branch feasibility and every assertion over all input values inside the stated bounds. 'states' = symbolic paths explored to a verdict, 'transitions' = SSA instructions executed symbolically, 'obligations' = assertion / panic-freedom / allocation queries, 'discharged' = those answered unsat. Nothing outside the per-harness bounds is claimed.",
			"states":                        paths,
			"transitions":                   steps,
			"traces_validated_against_impl": replayed,
			"evaluations":                   queries,
			"distinct_nontrivial":           distinct,
			"rule":                          "evaluations = solver queries issued; distinct_nontrivial = distinct feasible symbolic paths (distinct decision sequences with satisfiable path condition) that reached a verdict",
			"obligations":                   obligations,
			"discharged":                    discharged,
			"unknown":                       unknown,
			"known_findings_reproduced":     nKnown,
			"inconclusive":                  inconcl,
			"solver":                        solver,
			"solver_time_s":                 round3(solverTime),
			"functions_encoded":             fl,
			"models_used":                   sl,
			"harnesses":                     harnessInfo,
			"cover_labels":                  covers,
			"samples":                       samples,
			"exhaustive":                    false,
		},
	}
	if len(samples) == 0 {
		ev["coverage"].(map[string]interface{})["samples"] = []interface{}{"no completed path"}
	}
	os.MkdirAll(filepath.Join(verifDir, "evidence"), 0755)
	b, _ := json.MarshalIndent(ev, "", " ")
	os.WriteFile(filepath.Join(verifDir, "evidence", prop+".json"), b, 0644)
}

func round3(f float64) float64 { return float64(int64(f*1000+0.5)) / 1000 }

func cmdReplay(args []string) int {
	if len(args) < 1 {
		fmt.Fprintln(os.Stderr, "replay needs a path")
		return 2
	}
	b, err := os.ReadFile(args[0])
	if err != nil {
		fmt.Fprintln(os.Stderr, err)
		return 2
	}
	var rf replayFile
	if err := json.Unmarshal(b, &rf); err != nil {
		fmt.Fprintln(os.Stderr, err)
		return 2
	}
	all, _ := scanHarnesses()
	for _, h := range all {
		if h.Name == rf.Harness {
			tmp, _ := os.MkdirTemp("", "gosym-replay-")
			defer os.RemoveAll(tmp)
			ok, detail := runReplay(args[0], h, &Violation{Label: rf.Label, Kind: rf.Kind}, tmp)
			fmt.Printf("reproduced=%v %s\n", ok, detail)
			if ok {
				return 1
			}
			return 0
		}
	}
	fmt.Fprintln(os.Stderr, "harness not found: "+rf.Harness)
	return 2
}
