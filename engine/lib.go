package main

// Harness intrinsics (verif*) and engine-native models of body-less or
// environment functions. Every model used on a run is listed in the evidence.

import (
	"fmt"
	"go/types"
	"net"
	"strings"

	"golang.org/x/tools/go/ssa"
)

type libModel func(in *Interp, fn *ssa.Function, args []Value) Value

var libModels map[string]libModel

func boolOf(v Value) *Term { return v.(*Term) }

func (in *Interp) strArg(v Value) string {
	s, ok := concreteStr(v.(Str))
	if !ok {
		panic(engineError{"intrinsic needs a constant string argument"})
	}
	return s
}

func (in *Interp) nondetScalar(tag, kind string, s Sort) *Term {
	t := in.p.fresh(tag, s)
	in.p.nondets = append(in.p.nondets, &Nondet{Tag: tag, Kind: kind, t: t})
	return t
}

func (in *Interp) intrinsic(fn *ssa.Function, args []Value) (Value, bool) {
	switch fn.Name() {
	case "verifU8":
		return in.nondetScalar(in.strArg(args[0]), "u8", BV(8)), true
	case "verifU16":
		return in.nondetScalar(in.strArg(args[0]), "u16", BV(16)), true
	case "verifU32":
		return in.nondetScalar(in.strArg(args[0]), "u32", BV(32)), true
	case "verifU64":
		return in.nondetScalar(in.strArg(args[0]), "u64", BV(64)), true
	case "verifInt":
		return in.nondetScalar(in.strArg(args[0]), "int", BV(64)), true
	case "verifBool":
		return in.nondetScalar(in.strArg(args[0]), "bool", BoolSort), true
	case "verifBytes":
		tag := in.strArg(args[0])
		n := args[1].(*Term)
		_, hi := n.Bounds()
		if hi > 1<<20 {
			hi = in.p.UpperBound(n, 65536)
		}
		if hi > 1<<20 {
			panic(engineError{"verifBytes: unbounded length for " + tag})
		}
		in.requireOrPanic(SLe(C64(0), n), "verifBytes", "negative length")
		arr := in.p.fresh(tag, Sort{W: 8, Arr: true})
		in.p.nondets = append(in.p.nondets, &Nondet{Tag: tag, Kind: "bytes", t: n, arr: arr, maxN: int(hi)})
		a := &SArr{r: &ropeBase{sym: arr}, w: 8, n: n}
		o := in.newObject(types.NewSlice(types.Typ[types.Uint8]), a, "nondet:"+tag)
		return Slice{obj: o, off: C64(0), len: n, cap: n}, true
	case "verifString":
		tag := in.strArg(args[0])
		n := args[1].(*Term)
		_, hi := n.Bounds()
		if hi > 1<<20 {
			hi = in.p.UpperBound(n, 65536)
		}
		if hi > 1<<20 {
			panic(engineError{"verifString: unbounded length for " + tag})
		}
		arr := in.p.fresh(tag, Sort{W: 8, Arr: true})
		in.p.nondets = append(in.p.nondets, &Nondet{Tag: tag, Kind: "bytes", t: n, arr: arr, maxN: int(hi)})
		return Str{r: &ropeBase{sym: arr}, off: C64(0), n: n}, true
	case "verifAssume":
		c := boolOf(args[0])
		if c == TTrue {
			return nil, true
		}
		if !in.p.Assume(c) {
			panic(pathEnd{"pruned", "assumption"})
		}
		return nil, true
	case "verifAssert":
		label := in.strArg(args[1])
		if !in.p.MustHold(boolOf(args[0]), "assert", label, "", in) {
			panic(pathEnd{"pruned", "assertion cannot hold: " + label})
		}
		return nil, true
	case "verifCover":
		in.p.covers[in.strArg(args[0])] = true
		return nil, true
	case "verifIteInt", "verifIteU64", "verifIteBool", "verifIteU8", "verifIteU32", "verifIteU16":
		return Ite(boolOf(args[0]), args[1].(*Term), args[2].(*Term)), true
	case "verifAnd":
		return BAnd(boolOf(args[0]), boolOf(args[1])), true
	case "verifOr":
		return BOr(boolOf(args[0]), boolOf(args[1])), true
	case "verifImplies":
		return Implies(boolOf(args[0]), boolOf(args[1])), true
	case "verifPanicsAreViolations":
		c, _ := boolOf(args[0]).ConstVal()
		in.panicsAreViolations = c == 1
		return nil, true
	case "verifUnwind":
		c, _ := args[0].(*Term).ConstVal()
		in.unwind = int(c)
		return nil, true
	case "verifTerminationRequired":
		in.unwindIsViolation = true
		return nil, true
	case "verifAllocLimit":
		t := args[0].(*Term)
		if c, ok := t.ConstVal(); ok && int64(c) < 0 {
			in.allocLimit = nil
		} else {
			in.allocLimit = t
		}
		return nil, true
	case "verifGoCount":
		sub := in.strArg(args[0])
		n := 0
		for _, e := range in.events {
			if e.Kind == "go" && strings.Contains(e.Name, sub) {
				n++
			}
		}
		return C64(uint64(n)), true
	case "verifPanics":
		f := args[0].(Func)
		return in.callCatchingPanic(f), true
	case "verifRunGo":
		// run, synchronously, the first not-yet-run recorded go statement
		// whose callee name contains the argument
		sub := in.strArg(args[0])
		for i := range in.events {
			e := &in.events[i]
			if e.Kind == "go" && !e.ran && e.fn != nil && strings.Contains(e.Name, sub) {
				e.ran = true
				in.invoke(in.top, e.fn, e.Args, nil)
				return TTrue, true
			}
		}
		return TFalse, true
	case "verifBlockingIsViolation":
		in.blockingIsViolation = true
		return nil, true
	case "verifOnBlock":
		f := args[0].(Func)
		in.onBlock = &f
		return nil, true
	case "verifNote":
		in.p.notes = append(in.p.notes, in.strArg(args[0]))
		return nil, true
	case "verifMentions":
		// syntactic information flow: does the value's term depend on a symbol
		// whose name contains the given text? (no dependency => no flow)
		sub := sanitizeTag(in.strArg(args[1]))
		return Bool(termMentions(args[0].(*Term), sub, map[int]bool{})), true
	case "verifBytesMention":
		sub := sanitizeTag(in.strArg(args[1]))
		sl := args[0].(Slice)
		if sl.obj == nil {
			return TFalse, true
		}
		a := in.sarrOf(sl)
		seen := map[int]bool{}
		off, ok1 := sl.off.ConstVal()
		n, ok2 := sl.len.ConstVal()
		if ok1 && ok2 && n <= 1<<17 {
			for i := uint64(0); i < n; i++ {
				if termMentions(a.get(C64(off+i)), sub, seen) {
					return TTrue, true
				}
			}
			return TFalse, true
		}
		// symbolic window: conservative, anything the backing rope holds
		return Bool(termMentions(sl.off, sub, seen) || termMentions(sl.len, sub, seen) || ropeMentions(a.r, sub, seen, map[Rope]bool{})), true
	case "verifSymbolic":
		return TTrue, true
	case "verifBytesEq":
		a, b := args[0].(Slice), args[1].(Slice)
		return in.sliceEq(a, b), true
	case "verifStrEq":
		a, b := args[0].(Str), args[1].(Str)
		return in.seqEq(a.r, a.off, a.n, b.r, b.off, b.n), true
	case "verifFreshBytes":
		// fresh unconstrained bytes that are NOT part of the replay model
		// (outputs of idealised primitives)
		tag := in.strArg(args[0])
		n := args[1].(*Term)
		arr := in.p.fresh(tag, Sort{W: 8, Arr: true})
		a := &SArr{r: &ropeBase{sym: arr}, w: 8, n: n}
		o := in.newObject(types.NewSlice(types.Typ[types.Uint8]), a, "fresh:"+tag)
		return Slice{obj: o, off: C64(0), len: n, cap: n}, true
	case "verifUF8":
		// uninterpreted function name(args...) -> byte ; args are uint64
		name := in.strArg(args[0])
		var ts []*Term
		for _, e := range in.variadic(args[1]) {
			ts = append(ts, e.(*Term))
		}
		return Apply("uf_"+sanitizeTag(name), BV(8), ts...), true
	case "verifUF64":
		name := in.strArg(args[0])
		var ts []*Term
		for _, e := range in.variadic(args[1]) {
			ts = append(ts, e.(*Term))
		}
		return Apply("uf_"+sanitizeTag(name), BV(64), ts...), true
	case "verifUFBool":
		name := in.strArg(args[0])
		var ts []*Term
		for _, e := range in.variadic(args[1]) {
			ts = append(ts, e.(*Term))
		}
		return Apply("uf_"+sanitizeTag(name), BoolSort, ts...), true
	}
	return nil, false
}

// variadic returns the elements of a []uint64-like slice value with concrete length.
func (in *Interp) variadic(v Value) []Value {
	s := v.(Slice)
	if s.obj == nil {
		return nil
	}
	n := in.p.Concretize(s.len, "variadic length")
	off := in.p.Concretize(s.off, "variadic off")
	var out []Value
	switch a := in.arrayAt(s.obj, s.path).(type) {
	case *SArr:
		for i := uint64(0); i < n; i++ {
			out = append(out, a.get(C64(off+i)))
		}
	case *Array:
		for i := uint64(0); i < n; i++ {
			out = append(out, a.E[off+i])
		}
	}
	return out
}

func (in *Interp) sliceEq(a, b Slice) *Term {
	if a.obj == nil && b.obj == nil {
		return TTrue
	}
	if a.obj == nil {
		return Eq(b.len, C64(0))
	}
	if b.obj == nil {
		return Eq(a.len, C64(0))
	}
	ra, rb := in.sarrOf(a), in.sarrOf(b)
	return in.seqEq(ra.r, a.off, a.len, rb.r, b.off, b.len)
}

// callCatchingPanic runs f(); true iff it panicked (state changes persist,
// as with recover()).
func (in *Interp) callCatchingPanic(f Func) (res Value) {
	saveTop, saveDepth, savePV := in.top, in.depth, in.panicsAreViolations
	in.panicsAreViolations = false
	res = TFalse
	defer func() {
		in.panicsAreViolations = savePV
		if r := recover(); r != nil {
			if pe, ok := r.(pathEnd); ok && pe.status == "panic" {
				in.top, in.depth = saveTop, saveDepth
				res = TTrue
				return
			}
			panic(r)
		}
	}()
	in.invoke(in.top, f, nil, nil)
	return
}

// mutexState finds the int32 state word inside a sync.Mutex of any layout.
func (in *Interp) mutexState(p Ptr, fn *ssa.Function) Ptr {
	t := fn.Signature.Recv().Type().(*types.Pointer).Elem()
	for depth := 0; depth < 4; depth++ {
		st, ok := t.Underlying().(*types.Struct)
		if !ok {
			break
		}
		found := false
		for i := 0; i < st.NumFields(); i++ {
			ft := st.Field(i).Type()
			if b, ok := ft.Underlying().(*types.Basic); ok && b.Kind() == types.Int32 {
				return in.fieldPtr(p, i)
			}
			if fs, ok := ft.Underlying().(*types.Struct); ok && fs.NumFields() > 0 {
				p = in.fieldPtr(p, i)
				t = ft
				found = true
				break
			}
		}
		if !found {
			break
		}
	}
	panic(engineError{"cannot locate sync.Mutex state word"})
}

func (in *Interp) fieldPtr(p Ptr, f int) Ptr {
	return Ptr{obj: p.obj, path: appendPath(p.path, PElem{f: f})}
}

func (in *Interp) newError(name string) Value {
	in.objN++
	o := &Object{id: in.objN, v: &Struct{F: []Value{strLit(name)}}, typ: in.ld.errStringT, name: "err:" + name}
	return Iface{t: types.NewPointer(in.ld.errStringT), v: Ptr{obj: o}}
}

func atomicLoad(in *Interp, fn *ssa.Function, args []Value) Value {
	p := args[0].(Ptr)
	return in.load(p, fn.Signature.Results().At(0).Type())
}
func atomicStore(in *Interp, fn *ssa.Function, args []Value) Value {
	in.store(args[0].(Ptr), args[1])
	return nil
}
func atomicAdd(in *Interp, fn *ssa.Function, args []Value) Value {
	p := args[0].(Ptr)
	v := Add(in.load(p, fn.Signature.Results().At(0).Type()).(*Term), args[1].(*Term))
	in.store(p, v)
	return v
}
func atomicSwap(in *Interp, fn *ssa.Function, args []Value) Value {
	p := args[0].(Ptr)
	old := in.load(p, fn.Signature.Results().At(0).Type())
	in.store(p, args[1])
	return old
}
func atomicCAS(in *Interp, fn *ssa.Function, args []Value) Value {
	p := args[0].(Ptr)
	old := in.load(p, fn.Signature.Params().At(1).Type())
	if in.p.Decide(in.valEq(old, args[1])) {
		in.store(p, args[2])
		return TTrue
	}
	return TFalse
}
func atomicAnd(in *Interp, fn *ssa.Function, args []Value) Value {
	p := args[0].(Ptr)
	old := in.load(p, fn.Signature.Params().At(1).Type()).(*Term)
	in.store(p, And(old, args[1].(*Term)))
	return old
}
func atomicOr(in *Interp, fn *ssa.Function, args []Value) Value {
	p := args[0].(Ptr)
	old := in.load(p, fn.Signature.Params().At(1).Type()).(*Term)
	in.store(p, Or(old, args[1].(*Term)))
	return old
}

func noop(in *Interp, fn *ssa.Function, args []Value) Value { return in.results(fn, "noop") }

func init() {
	libModels = map[string]libModel{
		// --- sync: sequential semantics; re-locking a held mutex is a deadlock ---
		"(*sync.Mutex).Lock": func(in *Interp, fn *ssa.Function, args []Value) Value {
			if args[0].(Ptr).obj.opaque {
				return nil
			}
			p := in.mutexState(args[0].(Ptr), fn)
			st := in.load(p, types.Typ[types.Int32]).(*Term)
			if !in.p.Decide(Eq(st, Const(32, 0))) {
				in.blocked("deadlock: sync.Mutex locked twice on one sequential path")
			}
			in.store(p, Const(32, 1))
			return nil
		},
		"(*sync.Mutex).TryLock": func(in *Interp, fn *ssa.Function, args []Value) Value {
			p := in.mutexState(args[0].(Ptr), fn)
			st := in.load(p, types.Typ[types.Int32]).(*Term)
			if !in.p.Decide(Eq(st, Const(32, 0))) {
				return TFalse
			}
			in.store(p, Const(32, 1))
			return TTrue
		},
		"(*sync.Mutex).Unlock": func(in *Interp, fn *ssa.Function, args []Value) Value {
			if args[0].(Ptr).obj.opaque {
				return nil
			}
			p := in.mutexState(args[0].(Ptr), fn)
			st := in.load(p, types.Typ[types.Int32]).(*Term)
			if in.p.Decide(Eq(st, Const(32, 0))) {
				in.panicGo("sync: unlock of unlocked mutex", "")
			}
			in.store(p, Const(32, 0))
			return nil
		},
		// RWMutex{w Mutex; writerSem, readerSem uint32; ...}: writerSem = writer held, readerSem = reader count
		"(*sync.RWMutex).Lock": func(in *Interp, fn *ssa.Function, args []Value) Value {
			w, r := in.fieldPtr(args[0].(Ptr), 1), in.fieldPtr(args[0].(Ptr), 2)
			free := BAnd(Eq(in.load(w, types.Typ[types.Uint32]).(*Term), Const(32, 0)), Eq(in.load(r, types.Typ[types.Uint32]).(*Term), Const(32, 0)))
			if !in.p.Decide(free) {
				in.blocked("deadlock: sync.RWMutex.Lock while held on one sequential path")
			}
			in.store(w, Const(32, 1))
			return nil
		},
		"(*sync.RWMutex).Unlock": func(in *Interp, fn *ssa.Function, args []Value) Value {
			w := in.fieldPtr(args[0].(Ptr), 1)
			if in.p.Decide(Eq(in.load(w, types.Typ[types.Uint32]).(*Term), Const(32, 0))) {
				in.panicGo("sync: Unlock of unlocked RWMutex", "")
			}
			in.store(w, Const(32, 0))
			return nil
		},
		"(*sync.RWMutex).RLock": func(in *Interp, fn *ssa.Function, args []Value) Value {
			w, r := in.fieldPtr(args[0].(Ptr), 1), in.fieldPtr(args[0].(Ptr), 2)
			if !in.p.Decide(Eq(in.load(w, types.Typ[types.Uint32]).(*Term), Const(32, 0))) {
				in.blocked("deadlock: sync.RWMutex.RLock while write-locked on one sequential path")
			}
			in.store(r, Add(in.load(r, types.Typ[types.Uint32]).(*Term), Const(32, 1)))
			return nil
		},
		"(*sync.RWMutex).RUnlock": func(in *Interp, fn *ssa.Function, args []Value) Value {
			r := in.fieldPtr(args[0].(Ptr), 2)
			c := in.load(r, types.Typ[types.Uint32]).(*Term)
			if in.p.Decide(Eq(c, Const(32, 0))) {
				in.panicGo("sync: RUnlock of unlocked RWMutex", "")
			}
			in.store(r, Sub(c, Const(32, 1)))
			return nil
		},
		// --- atomics ---
		"sync/atomic.LoadInt32": atomicLoad, "sync/atomic.LoadInt64": atomicLoad, "sync/atomic.LoadUint32": atomicLoad,
		"sync/atomic.LoadUint64": atomicLoad, "sync/atomic.LoadUintptr": atomicLoad, "sync/atomic.LoadPointer": atomicLoad,
		"sync/atomic.StoreInt32": atomicStore, "sync/atomic.StoreInt64": atomicStore, "sync/atomic.StoreUint32": atomicStore,
		"sync/atomic.StoreUint64": atomicStore, "sync/atomic.StoreUintptr": atomicStore, "sync/atomic.StorePointer": atomicStore,
		"sync/atomic.AddInt32": atomicAdd, "sync/atomic.AddInt64": atomicAdd, "sync/atomic.AddUint32": atomicAdd,
		"sync/atomic.AddUint64": atomicAdd, "sync/atomic.AddUintptr": atomicAdd,
		"sync/atomic.SwapInt32": atomicSwap, "sync/atomic.SwapInt64": atomicSwap, "sync/atomic.SwapUint32": atomicSwap,
		"sync/atomic.SwapUint64": atomicSwap, "sync/atomic.SwapPointer": atomicSwap,
		"sync/atomic.CompareAndSwapInt32": atomicCAS, "sync/atomic.CompareAndSwapInt64": atomicCAS,
		"sync/atomic.CompareAndSwapUint32": atomicCAS, "sync/atomic.CompareAndSwapUint64": atomicCAS,
		"sync/atomic.CompareAndSwapPointer": atomicCAS,
		"sync/atomic.AndInt32":              atomicAnd, "sync/atomic.AndUint32": atomicAnd, "sync/atomic.OrInt32": atomicOr, "sync/atomic.OrUint32": atomicOr,
		"(*sync/atomic.Value).Load": func(in *Interp, fn *ssa.Function, args []Value) Value {
			return in.load(in.fieldPtr(args[0].(Ptr), 0), types.NewInterfaceType(nil, nil))
		},
		"(*sync/atomic.Value).Store": func(in *Interp, fn *ssa.Function, args []Value) Value {
			in.store(in.fieldPtr(args[0].(Ptr), 0), args[1])
			return nil
		},
		// --- bytes / strings helpers implemented in assembly ---
		"bytes.Equal": func(in *Interp, fn *ssa.Function, args []Value) Value {
			return in.sliceEq(args[0].(Slice), args[1].(Slice))
		},
		"internal/bytealg.Equal": func(in *Interp, fn *ssa.Function, args []Value) Value {
			return in.sliceEq(args[0].(Slice), args[1].(Slice))
		},
		"internal/bytealg.IndexByte": func(in *Interp, fn *ssa.Function, args []Value) Value {
			s := args[0].(Slice)
			if s.obj == nil {
				return C64(^uint64(0))
			}
			return in.indexByte(in.sarrOf(s).r, s.off, s.len, args[1].(*Term))
		},
		"internal/bytealg.IndexByteString": func(in *Interp, fn *ssa.Function, args []Value) Value {
			s := args[0].(Str)
			return in.indexByte(s.r, s.off, s.n, args[1].(*Term))
		},
		"internal/bytealg.MakeNoZero": func(in *Interp, fn *ssa.Function, args []Value) Value {
			n := args[0].(*Term)
			return in.makeSliceOf(types.Typ[types.Uint8], n, n)
		},
		"crypto/subtle.ConstantTimeCompare": func(in *Interp, fn *ssa.Function, args []Value) Value {
			eq := in.sliceEq(args[0].(Slice), args[1].(Slice))
			return Ite(eq, C64(1), C64(0))
		},
		// --- errors / fmt ---
		"fmt.Errorf": func(in *Interp, fn *ssa.Function, args []Value) Value {
			name := "fmt.Errorf"
			if s, ok := concreteStr(args[0].(Str)); ok {
				name = s
			}
			e := in.newError(name)
			if strings.Contains(name, "%w") {
				for _, a := range in.variadic(args[1]) {
					if iv, ok := a.(Iface); ok && iv.t != nil && types.Implements(iv.t, in.ld.errorIface) {
						in.wraps[e.(Iface).v.(Ptr).obj] = iv
						break
					}
				}
			}
			return e
		},
		"fmt.Sprintf":  func(in *Interp, fn *ssa.Function, args []Value) Value { return strLit("?fmt.Sprintf") },
		"fmt.Sprint":   func(in *Interp, fn *ssa.Function, args []Value) Value { return strLit("?fmt.Sprint") },
		"fmt.Sprintln": func(in *Interp, fn *ssa.Function, args []Value) Value { return strLit("?fmt.Sprintln") },
		"fmt.Sscanf":   noop,
		"errors.Is": func(in *Interp, fn *ssa.Function, args []Value) Value {
			err, target := args[0].(Iface), args[1].(Iface)
			for i := 0; i < 16; i++ {
				if err.t == nil || target.t == nil {
					return Bool(err.t == nil && target.t == nil)
				}
				if in.p.Decide(in.valEq(err, target)) {
					return TTrue
				}
				p, ok := err.v.(Ptr)
				if !ok || p.obj == nil {
					return TFalse
				}
				w, ok := in.wraps[p.obj]
				if !ok {
					return TFalse
				}
				err = w
			}
			return TFalse
		},
		"errors.Unwrap": func(in *Interp, fn *ssa.Function, args []Value) Value {
			err := args[0].(Iface)
			if p, ok := err.v.(Ptr); ok && p.obj != nil {
				if w, ok := in.wraps[p.obj]; ok {
					return w
				}
			}
			return Iface{}
		},
		"github.com/pkg/errors.New": func(in *Interp, fn *ssa.Function, args []Value) Value {
			name := "pkg/errors.New"
			if s, ok := concreteStr(args[0].(Str)); ok {
				name = s
			}
			return in.newError(name)
		},
		// --- time ---
		"time.Now": func(in *Interp, fn *ssa.Function, args []Value) Value {
			return in.timeNow()
		},
		"time.Sleep": noop,
		"time.Since": func(in *Interp, fn *ssa.Function, args []Value) Value {
			d := in.p.fresh("since", BV(64))
			in.p.nondets = append(in.p.nondets, &Nondet{Tag: "time.Now", Kind: "u64", t: d})
			if !in.p.Assume(ULt(d, C64(1<<62))) {
				panic(pathEnd{"pruned", "clock contract"})
			}
			in.p.ex.res.Assumptions = appendUnique(in.p.ex.res.Assumptions, "time.Since(t): arbitrary non-negative duration (environment reading)")
			return d
		},
		"time.Until": func(in *Interp, fn *ssa.Function, args []Value) Value {
			d := in.p.fresh("until", BV(64))
			in.p.nondets = append(in.p.nondets, &Nondet{Tag: "time.Now", Kind: "u64", t: d})
			in.p.ex.res.Assumptions = appendUnique(in.p.ex.res.Assumptions, "time.Until(t): arbitrary duration (environment reading)")
			return d
		},
		"(time.Time).Sub": func(in *Interp, fn *ssa.Function, args []Value) Value {
			t, u := args[0].(*Struct), args[1].(*Struct)
			tw, ok1 := t.F[0].(*Term).ConstVal()
			uw, ok2 := u.F[0].(*Term).ConstVal()
			if ok1 && ok2 && tw == 0 && uw == 0 {
				// whole seconds, no monotonic reading: (t-u) seconds when that cannot saturate
				d := Sub(t.F[1].(*Term), u.F[1].(*Term))
				if lo, hi, ok := d.SRange(); ok && lo > -(1<<33) && hi < 1<<33 {
					return Mul(d, C64(1000000000))
				}
			}
			return in.callFunction(fn, args, nil)
		},
		"time.runtimeNano":   func(in *Interp, fn *ssa.Function, args []Value) Value { return in.p.fresh("nano", BV(64)) },
		"(time.Time).String": func(in *Interp, fn *ssa.Function, args []Value) Value { return strLit("?time") },
		"(time.Time).Format": func(in *Interp, fn *ssa.Function, args []Value) Value { return strLit("?time") },
		"(time.Duration).String": func(in *Interp, fn *ssa.Function, args []Value) Value {
			return strLit("?duration")
		},
		// --- randomness: fresh bytes ---
		"crypto/rand.Read": func(in *Interp, fn *ssa.Function, args []Value) Value {
			s := args[0].(Slice)
			if s.obj != nil {
				arr := in.p.fresh("rand", Sort{W: 8, Arr: true})
				in.sarrOf(s).copyFrom(s.off, &ropeBase{sym: arr}, C64(0), s.len)
			}
			return Tuple{s.lenOr0(), Iface{}}
		},
	}
}

func (in *Interp) timeNow() Value {
	// time.Time{wall uint64, ext int64, loc *Location}; wall=0 means no
	// monotonic reading and ext = seconds since year 1.
	// 1970-01-01 in internal seconds + an arbitrary 33-bit offset (the range is
	// structural so that time arithmetic on it simplifies)
	t := Add(ZExt(in.p.fresh("now", BV(33)), 64), C64(62135596800))
	c := TTrue
	if in.lastNow != nil {
		c = ULe(in.lastNow, t)
	}
	in.p.nondets = append(in.p.nondets, &Nondet{Tag: "time.Now", Kind: "u64", t: t})
	if !in.p.Assume(c) {
		panic(pathEnd{"pruned", "clock contract"})
	}
	in.p.ex.res.Assumptions = appendUnique(in.p.ex.res.Assumptions, "time.Now(): arbitrary non-decreasing instant between 1970 and 1970+2^33 s, whole seconds, no monotonic reading")
	in.lastNow = t
	return &Struct{F: []Value{C64(0), t, Ptr{}}}
}

// indexByte: first index of c in seq, or -1.
func (in *Interp) indexByte(r Rope, off, n, c *Term) Value {
	max, ok := n.ConstVal()
	if !ok {
		_, max = n.Bounds()
		if max > 4096 {
			max = in.p.UpperBound(n, 256)
		}
	}
	if max > 8192 {
		panic(engineError{fmt.Sprintf("IndexByte over up to %d bytes", max)})
	}
	res := C64(^uint64(0))
	for i := max; i > 0; i-- {
		k := i - 1
		hit := Eq(r.sel(Add(off, C64(k))), c)
		if !ok {
			hit = BAnd(hit, ULt(C64(k), n))
		}
		res = Ite(hit, C64(k), res)
	}
	return res
}

// strings.Builder{addr *Builder; buf []byte}: modelled on field 1.
func (in *Interp) builderBuf(p Ptr) Ptr { return in.fieldPtr(p, 1) }

var byteSliceT = types.NewSlice(types.Typ[types.Uint8])

func init() {
	libModels["(*strings.Builder).Write"] = func(in *Interp, fn *ssa.Function, args []Value) Value {
		bp := in.builderBuf(args[0].(Ptr))
		cur := in.load(bp, byteSliceT).(Slice)
		in.store(bp, in.appendBuiltin(cur, args[1], byteSliceT))
		return Tuple{args[1].(Slice).lenOr0(), Iface{}}
	}
	libModels["(*strings.Builder).WriteString"] = func(in *Interp, fn *ssa.Function, args []Value) Value {
		bp := in.builderBuf(args[0].(Ptr))
		cur := in.load(bp, byteSliceT).(Slice)
		in.store(bp, in.appendBuiltin(cur, args[1], byteSliceT))
		return Tuple{args[1].(Str).n, Iface{}}
	}
	libModels["(*strings.Builder).WriteByte"] = func(in *Interp, fn *ssa.Function, args []Value) Value {
		bp := in.builderBuf(args[0].(Ptr))
		cur := in.load(bp, byteSliceT).(Slice)
		a := newSArrZero(8, C64(1))
		a.set(C64(0), args[1].(*Term))
		o := in.newObject(byteSliceT, a, "byte")
		in.store(bp, in.appendBuiltin(cur, Slice{obj: o, off: C64(0), len: C64(1), cap: C64(1)}, byteSliceT))
		return Iface{}
	}
	libModels["(*strings.Builder).WriteRune"] = func(in *Interp, fn *ssa.Function, args []Value) Value {
		r := args[1].(*Term)
		in.p.addPCChecked(ULt(r, Const(32, 0x80)), "non-ASCII rune in strings.Builder.WriteRune (engine restriction)")
		bp := in.builderBuf(args[0].(Ptr))
		cur := in.load(bp, byteSliceT).(Slice)
		a := newSArrZero(8, C64(1))
		a.set(C64(0), Extract(r, 7, 0))
		o := in.newObject(byteSliceT, a, "byte")
		in.store(bp, in.appendBuiltin(cur, Slice{obj: o, off: C64(0), len: C64(1), cap: C64(1)}, byteSliceT))
		return Tuple{C64(1), Iface{}}
	}
	libModels["(*strings.Builder).String"] = func(in *Interp, fn *ssa.Function, args []Value) Value {
		cur := in.load(in.builderBuf(args[0].(Ptr)), byteSliceT).(Slice)
		return in.convert(cur, byteSliceT, types.Typ[types.String])
	}
	libModels["(*strings.Builder).Len"] = func(in *Interp, fn *ssa.Function, args []Value) Value {
		return in.load(in.builderBuf(args[0].(Ptr)), byteSliceT).(Slice).lenOr0()
	}
	libModels["(*strings.Builder).Reset"] = func(in *Interp, fn *ssa.Function, args []Value) Value {
		in.store(in.builderBuf(args[0].(Ptr)), Slice{})
		return nil
	}
	libModels["(*strings.Builder).Grow"] = func(in *Interp, fn *ssa.Function, args []Value) Value { return nil }
}

// --- encoding/binary.Read / Write for (named) fixed-size integers ---
// The library handles unnamed integer pointers on a fast path and everything
// else through reflection; the model covers both without reflect.

func (in *Interp) orderIsBig(order Value) bool {
	iv := order.(Iface)
	if iv.t == nil {
		panic(engineError{"binary: nil byte order"})
	}
	switch iv.t.String() {
	case "encoding/binary.bigEndian":
		return true
	case "encoding/binary.littleEndian":
		return false
	}
	panic(engineError{"binary: unsupported byte order " + iv.t.String()})
}

func (in *Interp) callIface(recv Iface, method string, args ...Value) Value {
	if recv.t == nil {
		in.panicGo("nil dereference", "method call on nil interface ("+method+")")
	}
	var pkg *types.Package
	m := in.ld.prog.LookupMethod(recv.t, pkg, method)
	if m == nil {
		panic(engineError{"no method " + method + " on " + recv.t.String()})
	}
	return in.callFn(m, append([]Value{recv.v}, args...), nil)
}

func (in *Interp) newByteSlice(n uint64) Slice {
	o := in.newObject(byteSliceT, newSArrZero(8, C64(n)), "tmp")
	return Slice{obj: o, off: C64(0), len: C64(n), cap: C64(n)}
}

func binaryRead(in *Interp, fn *ssa.Function, args []Value) Value {
	data := args[2].(Iface)
	if data.t != nil {
		if pt, ok := data.t.Underlying().(*types.Pointer); ok {
			et := pt.Elem()
			w := intWidth(et)
			isBool := isBoolT(et)
			if w > 0 || isBool {
				if isBool {
					w = 8
				}
				big := in.orderIsBig(args[1])
				buf := in.newByteSlice(uint64(w / 8))
				rf := in.ld.prog.ImportedPackage("io").Func("ReadFull")
				res := in.callFn(rf, []Value{args[0], buf}, nil).(Tuple)
				if !in.p.Decide(in.valEq(res[1], Iface{})) {
					return res[1]
				}
				a := in.sarrOf(buf)
				var v *Term
				for i := 0; i < w/8; i++ {
					b := a.get(C64(uint64(i)))
					if v == nil {
						v = b
					} else if big {
						v = Concat(v, b)
					} else {
						v = Concat(b, v)
					}
				}
				if isBool {
					in.store(data.v.(Ptr), Not(Eq(v, Const(8, 0))))
				} else {
					in.store(data.v.(Ptr), v)
				}
				return Iface{}
			}
		}
	}
	return in.callFunction(fn, args, nil)
}

func binaryWrite(in *Interp, fn *ssa.Function, args []Value) Value {
	data := args[2].(Iface)
	if data.t != nil {
		t := data.t
		v := data.v
		if pt, ok := t.Underlying().(*types.Pointer); ok && intWidth(pt.Elem()) > 0 {
			v = in.load(v.(Ptr), pt.Elem())
			t = pt.Elem()
		}
		if w := intWidth(t); w > 0 {
			big := in.orderIsBig(args[1])
			x := v.(*Term)
			buf := in.newByteSlice(uint64(w / 8))
			a := in.sarrOf(buf)
			for i := 0; i < w/8; i++ {
				var b *Term
				if big {
					b = Extract(x, w-1-8*i, w-8-8*i)
				} else {
					b = Extract(x, 8*i+7, 8*i)
				}
				a.set(C64(uint64(i)), b)
			}
			res := in.callIface(args[0].(Iface), "Write", buf).(Tuple)
			return res[1]
		}
	}
	return in.callFunction(fn, args, nil)
}

func init() {
	libModels["encoding/binary.Read"] = binaryRead
	libModels["encoding/binary.Write"] = binaryWrite
}

// time.NewTicker / NewTimer: a ticker/timer that never fires on its own; the
// harness may put a value on C to model a tick.
func newTickerModel(in *Interp, fn *ssa.Function, args []Value) Value {
	pt := fn.Signature.Results().At(0).Type().(*types.Pointer)
	st := zeroValue(pt.Elem()).(*Struct)
	// field 0 is C (<-chan Time)
	in.objN++
	st.F[0] = ChanRef{c: &ChanObj{id: in.objN, cap: 1, et: pt.Elem().Underlying().(*types.Struct).Field(0).Type().Underlying().(*types.Chan).Elem()}}
	o := in.newObject(pt.Elem(), st, "ticker")
	return Ptr{obj: o}
}

func init() {
	libModels["time.NewTicker"] = newTickerModel
	libModels["time.NewTimer"] = newTickerModel
	// the timer never fires on its own; its callback is recorded like a go
	// statement so that a harness can fire it with verifRunGo("time.AfterFunc")
	libModels["time.AfterFunc"] = func(in *Interp, fn *ssa.Function, args []Value) Value {
		in.events = append(in.events, Event{Kind: "go", Name: "time.AfterFunc", Args: nil, fn: args[1]})
		return newTickerModel(in, fn, args)
	}
	libModels["time.After"] = func(in *Interp, fn *ssa.Function, args []Value) Value {
		in.objN++
		return ChanRef{c: &ChanObj{id: in.objN, cap: 1, et: fn.Signature.Results().At(0).Type().Underlying().(*types.Chan).Elem()}}
	}
}

func init() {
	// timers never fire on their own in the engine, so Stop/Reset always find
	// them active
	libModels["(*time.Timer).Stop"] = func(in *Interp, fn *ssa.Function, args []Value) Value { return TTrue }
	libModels["(*time.Timer).Reset"] = func(in *Interp, fn *ssa.Function, args []Value) Value { return TTrue }
}

func init() {
	// internal/bytealg.IndexString(a, b): first index of b in a, -1 if none.
	idx := func(in *Interp, ar Rope, aoff, an *Term, br Rope, boff, bn *Term) Value {
		m := in.p.Concretize(bn, "IndexString needle length")
		max, ok := an.ConstVal()
		if !ok {
			max = in.p.UpperBound(an, 256)
		}
		if max > 4096 || m > 64 {
			panic(engineError{"IndexString over a long haystack/needle"})
		}
		res := C64(^uint64(0))
		if m > max {
			return res
		}
		for k := max - m + 1; k > 0; k-- {
			p := k - 1
			hit := ULe(C64(p+m), an)
			for j := uint64(0); j < m; j++ {
				hit = BAnd(hit, Eq(ar.sel(Add(aoff, C64(p+j))), br.sel(Add(boff, C64(j)))))
			}
			res = Ite(hit, C64(p), res)
		}
		return res
	}
	libModels["internal/bytealg.IndexString"] = func(in *Interp, fn *ssa.Function, args []Value) Value {
		a, b := args[0].(Str), args[1].(Str)
		return idx(in, a.r, a.off, a.n, b.r, b.off, b.n)
	}
	libModels["internal/bytealg.Index"] = func(in *Interp, fn *ssa.Function, args []Value) Value {
		a, b := args[0].(Slice), args[1].(Slice)
		if a.obj == nil || b.obj == nil {
			if b.obj == nil || b.len == C64(0) {
				return C64(0)
			}
			return C64(^uint64(0))
		}
		return idx(in, in.sarrOf(a).r, a.off, a.len, in.sarrOf(b).r, b.off, b.len)
	}
	libModels["internal/bytealg.CountString"] = func(in *Interp, fn *ssa.Function, args []Value) Value {
		a := args[0].(Str)
		c := args[1].(*Term)
		max, ok := a.n.ConstVal()
		if !ok {
			max = in.p.UpperBound(a.n, 256)
		}
		if max > 4096 {
			panic(engineError{"CountString over a long string"})
		}
		res := C64(0)
		for k := uint64(0); k < max; k++ {
			hit := BAnd(ULt(C64(k), a.n), Eq(a.r.sel(Add(a.off, C64(k))), c))
			res = Add(res, Ite(hit, C64(1), C64(0)))
		}
		return res
	}
}

// goValue converts a fully concrete engine value to a native Go value (for
// formatting functions).
func (in *Interp) goValue(v Value, t types.Type) (interface{}, bool) {
	switch x := v.(type) {
	case Iface:
		if x.t == nil {
			return nil, true
		}
		return in.goValue(x.v, x.t)
	case Str:
		s, ok := concreteStr(x)
		return s, ok
	case *Term:
		c, ok := x.ConstVal()
		if !ok {
			return nil, false
		}
		if b, isB := t.Underlying().(*types.Basic); isB {
			switch b.Kind() {
			case types.Bool:
				return c == 1, true
			case types.Int:
				return int(int64(c)), true
			case types.Int8:
				return int8(c), true
			case types.Int16:
				return int16(c), true
			case types.Int32:
				return int32(c), true
			case types.Int64:
				return int64(c), true
			case types.Uint:
				return uint(c), true
			case types.Uint8:
				return uint8(c), true
			case types.Uint16:
				return uint16(c), true
			case types.Uint32:
				return uint32(c), true
			case types.Uint64:
				return c, true
			}
		}
		return nil, false
	case Slice:
		if st, ok := t.Underlying().(*types.Slice); ok && intWidth(st.Elem()) == 8 {
			if x.obj == nil {
				return []byte(nil), true
			}
			n, ok1 := x.len.ConstVal()
			off, ok2 := x.off.ConstVal()
			if !ok1 || !ok2 || n > 1<<16 {
				return nil, false
			}
			a := in.sarrOf(x)
			out := make([]byte, n)
			for i := uint64(0); i < n; i++ {
				c, ok := a.get(C64(off + i)).ConstVal()
				if !ok {
					return nil, false
				}
				out[i] = byte(c)
			}
			return out, true
		}
	}
	return nil, false
}

func init() {
	sprintf := func(in *Interp, fn *ssa.Function, args []Value) Value {
		f, ok := concreteStr(args[0].(Str))
		if !ok {
			return strLit("?fmt.Sprintf")
		}
		var gv []interface{}
		for _, a := range in.variadic(args[1]) {
			iv, isI := a.(Iface)
			if !isI {
				return strLit("?fmt.Sprintf")
			}
			// values with their own String/Error methods are rendered by
			// calling that method in the engine
			if iv.t != nil {
				ms := in.ld.prog.MethodSets.MethodSet(iv.t)
				rendered := false
				for _, mn := range []string{"Error", "String"} {
					if sel := ms.Lookup(nil, mn); sel != nil {
						if sig, ok := sel.Type().(*types.Signature); ok && sig.Params().Len() == 0 && sig.Results().Len() == 1 && isString(sig.Results().At(0).Type()) {
							r := in.callIface(iv, mn)
							if st, ok := r.(Str); ok {
								if cs, ok := concreteStr(st); ok {
									gv = append(gv, cs)
									rendered = true
								}
							}
							if !rendered {
								return strLit("?fmt.Sprintf")
							}
							break
						}
					}
				}
				if rendered {
					continue
				}
			}
			g, ok := in.goValue(iv, nil)
			if !ok {
				return strLit("?fmt.Sprintf")
			}
			gv = append(gv, g)
		}
		return strLit(fmt.Sprintf(f, gv...))
	}
	libModels["fmt.Sprintf"] = sprintf
	// fmt.Sprint(a...) with concrete scalar arguments: rendered natively
	libModels["fmt.Sprint"] = func(in *Interp, fn *ssa.Function, args []Value) Value {
		var gv []interface{}
		for _, a := range in.variadic(args[0]) {
			iv, isI := a.(Iface)
			if !isI {
				return strLit("?fmt.Sprint")
			}
			g, ok := in.goValue(iv, nil)
			if !ok {
				return strLit("?fmt.Sprint")
			}
			gv = append(gv, g)
		}
		return strLit(fmt.Sprint(gv...))
	}
}

func init() {
	// (*net.UDPAddr).String(): only ever used as a map key by hop (AddressHashKey);
	// modelled as an injective encoding of (IP bytes, port, zone).
	libModels["(*net.UDPAddr).String"] = func(in *Interp, fn *ssa.Function, args []Value) Value {
		p := args[0].(Ptr)
		if p.IsNil() {
			return strLit("<nil>")
		}
		st := in.load(p, fn.Signature.Recv().Type().(*types.Pointer).Elem()).(*Struct)
		ip := st.F[0].(Slice)
		port := st.F[1].(*Term)
		zone := st.F[2].(Str)
		ipLen := ip.lenOr0()
		n := Add(Add(ipLen, C64(3)), zone.n)
		arr := newSArrZero(8, n)
		arr.set(C64(0), Extract(ipLen, 7, 0))
		if ip.obj != nil {
			arr.copyFrom(C64(1), in.sarrOf(ip).r, ip.off, ipLen)
		}
		arr.set(Add(ipLen, C64(1)), Extract(port, 15, 8))
		arr.set(Add(ipLen, C64(2)), Extract(port, 7, 0))
		arr.copyFrom(Add(ipLen, C64(3)), zone.r, zone.off, zone.n)
		if o, ok := arr.r.(*ropeOverlay); ok {
			o.frozen = true
		}
		in.p.ex.res.Assumptions = appendUnique(in.p.ex.res.Assumptions, "(*net.UDPAddr).String() modelled as an injective encoding of (IP bytes, port, zone); hop only uses it as a map key")
		return Str{r: arr.r, off: C64(0), n: n}
	}
}

func init() {
	libModels["(*sync/atomic.Value).CompareAndSwap"] = func(in *Interp, fn *ssa.Function, args []Value) Value {
		p := in.fieldPtr(args[0].(Ptr), 0)
		old := in.load(p, types.NewInterfaceType(nil, nil))
		if in.p.Decide(in.valEq(old, args[1])) {
			in.store(p, args[2])
			return TTrue
		}
		return TFalse
	}
	libModels["(*sync/atomic.Value).Swap"] = func(in *Interp, fn *ssa.Function, args []Value) Value {
		p := in.fieldPtr(args[0].(Ptr), 0)
		old := in.load(p, types.NewInterfaceType(nil, nil))
		in.store(p, args[1])
		return old
	}
}

func init() {
	// net.IP text functions: computed natively on concrete values (netip's
	// internals use unsafe/unique handles the engine does not execute).
	libModels["(net.IP).String"] = func(in *Interp, fn *ssa.Function, args []Value) Value {
		b, ok := in.goValue(args[0], byteSliceT)
		if !ok {
			panic(engineError{"(net.IP).String on symbolic address bytes"})
		}
		return strLit(net.IP(b.([]byte)).String())
	}
	libModels["net.ParseIP"] = func(in *Interp, fn *ssa.Function, args []Value) Value {
		s, ok := concreteStr(args[0].(Str))
		if !ok {
			panic(engineError{"net.ParseIP on symbolic text"})
		}
		ip := net.ParseIP(s)
		if ip == nil {
			return Slice{}
		}
		sl := in.newByteSlice(uint64(len(ip)))
		a := in.sarrOf(sl)
		for i, c := range ip {
			a.set(C64(uint64(i)), Const(8, uint64(c)))
		}
		return sl
	}
}

func termMentions(t *Term, sub string, seen map[int]bool) bool {
	if t == nil || seen[t.id] {
		return false
	}
	seen[t.id] = true
	if (t.op == OpSym || t.op == OpApply) && strings.Contains(t.name, sub) {
		return true
	}
	for _, a := range t.args {
		if termMentions(a, sub, seen) {
			return true
		}
	}
	return false
}

func ropeMentions(r Rope, sub string, seen map[int]bool, rs map[Rope]bool) bool {
	if r == nil || rs[r] {
		return false
	}
	rs[r] = true
	switch x := r.(type) {
	case *ropeBase:
		return termMentions(x.sym, sub, seen)
	case *ropeConst:
		return termMentions(x.v, sub, seen)
	case *ropeLit:
		return false
	case *ropeOverlay:
		for _, v := range x.cells {
			if termMentions(v, sub, seen) {
				return true
			}
		}
		return ropeMentions(x.under, sub, seen, rs)
	case *ropeStore:
		return termMentions(x.idx, sub, seen) || termMentions(x.val, sub, seen) || ropeMentions(x.under, sub, seen, rs)
	case *ropeCopy:
		return termMentions(x.dst, sub, seen) || termMentions(x.n, sub, seen) || termMentions(x.srcOff, sub, seen) || ropeMentions(x.src, sub, seen, rs) || ropeMentions(x.under, sub, seen, rs)
	}
	return true
}

// sync.Map: an association list per map object (sequential model, like the
// mutexes). Key equality is decided by the solver where it is symbolic.
type smEntry struct{ k, v Value }

func (in *Interp) smKey(p Ptr) string { return fmt.Sprintf("%p/%v", p.obj, p.path) }

func (in *Interp) smFind(p Ptr, key Value) int {
	if in.syncMaps == nil {
		in.syncMaps = map[string][]smEntry{}
	}
	es := in.syncMaps[in.smKey(p)]
	for i := range es {
		if in.p.Decide(in.valEq(es[i].k, key)) {
			return i
		}
	}
	return -1
}

func init() {
	libModels["(*sync.Map).Load"] = func(in *Interp, fn *ssa.Function, args []Value) Value {
		p := args[0].(Ptr)
		if i := in.smFind(p, args[1]); i >= 0 {
			return Tuple{in.syncMaps[in.smKey(p)][i].v, TTrue}
		}
		return Tuple{Iface{}, TFalse}
	}
	libModels["(*sync.Map).Store"] = func(in *Interp, fn *ssa.Function, args []Value) Value {
		p := args[0].(Ptr)
		k := in.smKey(p)
		if i := in.smFind(p, args[1]); i >= 0 {
			in.syncMaps[k][i].v = args[2]
		} else {
			in.syncMaps[k] = append(in.syncMaps[k], smEntry{args[1], args[2]})
		}
		return nil
	}
	libModels["(*sync.Map).LoadOrStore"] = func(in *Interp, fn *ssa.Function, args []Value) Value {
		p := args[0].(Ptr)
		k := in.smKey(p)
		if i := in.smFind(p, args[1]); i >= 0 {
			return Tuple{in.syncMaps[k][i].v, TTrue}
		}
		in.syncMaps[k] = append(in.syncMaps[k], smEntry{args[1], args[2]})
		return Tuple{args[2], TFalse}
	}
	del := func(in *Interp, fn *ssa.Function, args []Value) Value {
		p := args[0].(Ptr)
		k := in.smKey(p)
		if i := in.smFind(p, args[1]); i >= 0 {
			old := in.syncMaps[k][i].v
			es := append([]smEntry(nil), in.syncMaps[k][:i]...)
			in.syncMaps[k] = append(es, in.syncMaps[k][i+1:]...)
			return Tuple{old, TTrue}
		}
		return Tuple{Iface{}, TFalse}
	}
	libModels["(*sync.Map).LoadAndDelete"] = del
	libModels["(*sync.Map).Delete"] = func(in *Interp, fn *ssa.Function, args []Value) Value {
		del(in, fn, args)
		return nil
	}
}
