package main

import (
	"fmt"
	"go/constant"
	"go/token"
	"go/types"
	"math"
	"strings"

	"golang.org/x/tools/go/ssa"
)

type funcInfo struct {
	idx map[ssa.Value]int
	n   int
	nin int // instruction count
}

type deferred struct {
	fn   Value
	args []Value
	call *ssa.CallCommon
}

type Frame struct {
	fn       *ssa.Function
	info     *funcInfo
	regs     []Value
	block    *ssa.BasicBlock
	prev     *ssa.BasicBlock
	defers   []deferred
	visits   []int
	caller   *Frame
	bind     []Value
	curInstr ssa.Instruction
	tolerant bool
}

type Event struct {
	Kind string
	Name string
	Args []Value
	fn   Value // callee of a recorded go statement (nil for interface calls)
	ran  bool
}

type Interp struct {
	syncMaps  map[string][]smEntry
	ld        *Loaded
	p         *Path
	h         *Harness
	globals   map[*ssa.Global]*Object
	objN      int
	events    []Event
	steps     int
	maxSteps  int
	depth     int
	top       *Frame
	funcsSeen map[string]int
	stubsUsed map[string]int
	initDone  map[*ssa.Package]bool
	ghost     map[string]Value

	panicsAreViolations bool
	unwindIsViolation   bool
	unwind              int
	allocLimit          *Term
	blockedOK           bool
	onBlock             *Func
	errObjs             map[string]*Object
	wraps               map[*Object]Iface
	initTolerant        bool
	blockingIsViolation bool
	poisoned            map[*ssa.Global]bool
	lastNow             *Term
	typeErrs            map[string]Value
}

func newInterp(ld *Loaded, p *Path, h *Harness) *Interp {
	in := &Interp{ld: ld, p: p, h: h,
		globals:   map[*ssa.Global]*Object{},
		funcsSeen: map[string]int{}, stubsUsed: map[string]int{},
		initDone: map[*ssa.Package]bool{},
		ghost:    map[string]Value{},
		errObjs:  map[string]*Object{},
		wraps:    map[*Object]Iface{},
		maxSteps: h.MaxSteps, unwind: h.Unwind,
		panicsAreViolations: true,
	}
	return in
}

func (in *Interp) newObject(t types.Type, v Value, name string) *Object {
	in.objN++
	return &Object{id: in.objN, v: v, typ: t, name: name}
}

func (in *Interp) stackTrace() []string {
	var out []string
	for f := in.top; f != nil; f = f.caller {
		pos := ""
		if f.curInstr != nil && f.curInstr.Pos().IsValid() {
			pp := in.ld.prog.Fset.Position(f.curInstr.Pos())
			pos = fmt.Sprintf(" %s:%d", shortFile(pp.Filename), pp.Line)
		}
		out = append(out, f.fn.String()+pos)
		if len(out) > 24 {
			break
		}
	}
	return out
}

func shortFile(f string) string {
	if i := strings.Index(f, "/repo/"); i >= 0 {
		return f[i+6:]
	}
	if i := strings.LastIndex(f, "/src/"); i >= 0 {
		return f[i+5:]
	}
	return f
}

func (in *Interp) info(fn *ssa.Function) *funcInfo {
	if fi, ok := in.ld.finfo[fn]; ok {
		return fi
	}
	fi := &funcInfo{idx: map[ssa.Value]int{}}
	for _, p := range fn.Params {
		fi.idx[p] = fi.n
		fi.n++
	}
	for _, p := range fn.FreeVars {
		fi.idx[p] = fi.n
		fi.n++
	}
	for _, b := range fn.Blocks {
		for _, ins := range b.Instrs {
			fi.nin++
			if v, ok := ins.(ssa.Value); ok {
				fi.idx[v] = fi.n
				fi.n++
			}
		}
	}
	in.ld.finfo[fn] = fi
	return fi
}

// panicGo ends the path with a Go panic (possibly a violation).
func (in *Interp) panicGo(kind, msg string) {
	if in.panicsAreViolations {
		where := "?"
		for f := in.top; f != nil; f = f.caller {
			// attribute to innermost non-stdlib-helper function
			where = f.fn.String()
			break
		}
		label := "panic: " + kind + " @ " + where
		in.p.ex.report(&Violation{Harness: in.h.Name, Label: label, Kind: "panic", Msg: msg, Model: in.p.ex.modelNow(in.p), Trace: in.stackTrace()})
	}
	panic(pathEnd{"panic", kind + ": " + msg})
}

// requireOrPanic: cond must hold, else Go panics. Forks: reports the panic
// side if feasible, continues on the other.
func (in *Interp) requireOrPanic(cond *Term, kind, msg string) {
	if cond == TTrue {
		return
	}
	if in.panicsAreViolations {
		where := in.top.fn.String()
		label := "panic: " + kind + " @ " + where
		if !in.p.MustHold(cond, "panic", label, msg, in) {
			panic(pathEnd{"panic", kind + ": " + msg})
		}
		return
	}
	if !in.p.Decide(cond) {
		panic(pathEnd{"panic", kind + ": " + msg})
	}
}

func (in *Interp) constValue(c *ssa.Const) Value {
	t := c.Type()
	if c.Value == nil {
		return zeroValue(t)
	}
	switch u := t.Underlying().(type) {
	case *types.Basic:
		switch {
		case u.Info()&types.IsBoolean != 0:
			return Bool(constant.BoolVal(c.Value))
		case u.Info()&types.IsString != 0:
			return strLit(constant.StringVal(c.Value))
		case u.Info()&types.IsInteger != 0:
			w := basicWidth(u)
			if v, ok := constant.Int64Val(constant.ToInt(c.Value)); ok {
				return Const(w, uint64(v))
			}
			v, _ := constant.Uint64Val(constant.ToInt(c.Value))
			return Const(w, v)
		case u.Info()&types.IsFloat != 0:
			f, _ := constant.Float64Val(c.Value)
			return Const(64, math.Float64bits(f))
		}
	case *types.Interface:
		// typed-nil const handled by Value==nil above
	}
	// type parameters instantiated etc.
	panic(engineError{fmt.Sprintf("constValue: unsupported const %v of type %v", c, t)})
}

func (in *Interp) globalObj(g *ssa.Global) *Object {
	if o, ok := in.globals[g]; ok {
		return o
	}
	et := g.Type().(*types.Pointer).Elem()
	var v Value
	pkgPath := ""
	if g.Pkg != nil {
		pkgPath = g.Pkg.Pkg.Path()
	}
	if in.isHopPkg(pkgPath) {
		v = zeroValue(et)
		o := in.newObject(et, v, g.String())
		in.globals[g] = o
		in.ensureInit(g.Pkg)
		return o
	}
	// foreign global: error sentinels become distinct opaque errors; the
	// rest are zero values initialised by a tolerant run of the package
	// initialiser (instructions the engine cannot execute are skipped and
	// their target globals poisoned).
	if types.IsInterface(et) && et.String() == "error" {
		v = in.sentinelError(g.String())
		o := in.newObject(et, v, g.String())
		in.globals[g] = o
		return o
	}
	// the standard streams: opaque, distinct, non-nil *os.File values (hop only
	// passes them around as defaults)
	if gs := g.String(); gs == "os.Stdin" || gs == "os.Stdout" || gs == "os.Stderr" {
		if pt, ok := et.(*types.Pointer); ok {
			fo := in.newObject(pt.Elem(), zeroValue(pt.Elem()), gs+":file")
			o := in.newObject(et, Ptr{obj: fo}, gs)
			in.globals[g] = o
			return o
		}
	}
	v = in.foreignGlobal(g, et)
	o := in.newObject(et, v, g.String())
	in.globals[g] = o
	if g.Pkg != nil && !in.initDone[g.Pkg] {
		in.ensureInit(g.Pkg)
	}
	if in.poisoned[g] {
		panic(engineError{"use of foreign global whose initialiser could not be executed: " + g.String()})
	}
	return o
}

func (in *Interp) foreignGlobal(g *ssa.Global, et types.Type) Value {
	defer func() {
		if r := recover(); r != nil {
			if _, ok := r.(engineError); ok {
				panic(engineError{"foreign global of unsupported type: " + g.String()})
			}
			panic(r)
		}
	}()
	return zeroValue(et)
}

// sentinelError returns a distinct non-nil error value identified by name.
func (in *Interp) sentinelError(name string) Value {
	o, ok := in.errObjs[name]
	if !ok {
		o = in.newObject(in.ld.errStringT, &Struct{F: []Value{strLit(name)}}, "err:"+name)
		in.errObjs[name] = o
	}
	return Iface{t: types.NewPointer(in.ld.errStringT), v: Ptr{obj: o}}
}

func (in *Interp) isHopPkg(path string) bool {
	return strings.HasPrefix(path, "hop.computer/hop")
}

// ensureInit runs the package initializer of a hop package once (lazily).
func (in *Interp) ensureInit(pkg *ssa.Package) {
	if pkg == nil || in.initDone[pkg] {
		return
	}
	in.initDone[pkg] = true
	initFn := pkg.Func("init")
	if initFn == nil || len(initFn.Blocks) == 0 {
		return
	}
	saveP, saveU, saveS := in.panicsAreViolations, in.unwind, in.maxSteps
	in.panicsAreViolations = false
	in.unwind = 1 << 20
	in.maxSteps = in.steps + 50000000
	in.initTolerant = !in.isHopPkg(pkg.Pkg.Path())
	in.callFunction(initFn, nil, nil)
	in.panicsAreViolations, in.unwind, in.maxSteps = saveP, saveU, saveS
}

func (in *Interp) unsetReg(fr *Frame, v ssa.Value) bool {
	if i, ok := fr.info.idx[v]; ok {
		return fr.regs[i] == nil
	}
	return false
}

// execTolerant runs one instruction of a foreign package initialiser; any
// engine error or panic skips it (its register stays unset).
func (in *Interp) execTolerant(fr *Frame, ins ssa.Instruction) (ok bool) {
	saveTop, saveDepth := in.top, in.depth
	defer func() {
		if r := recover(); r != nil {
			switch r.(type) {
			case engineError, pathEnd:
				in.top, in.depth = saveTop, saveDepth
				ok = false
				return
			}
			panic(r)
		}
	}()
	in.exec(fr, ins)
	return true
}

// poisonStore marks the global a skipped initialising store was aimed at.
func (in *Interp) poisonStore(fr *Frame, ins ssa.Instruction) {
	st, ok := ins.(*ssa.Store)
	if !ok {
		return
	}
	a := st.Addr
	for {
		switch x := a.(type) {
		case *ssa.Global:
			if in.poisoned == nil {
				in.poisoned = map[*ssa.Global]bool{}
			}
			in.poisoned[x] = true
			return
		case *ssa.FieldAddr:
			a = x.X
		case *ssa.IndexAddr:
			a = x.X
		default:
			return
		}
	}
}

func (in *Interp) eval(fr *Frame, v ssa.Value) Value {
	switch x := v.(type) {
	case *ssa.Const:
		return in.constValue(x)
	case *ssa.Function:
		return Func{fn: x}
	case *ssa.Global:
		return Ptr{obj: in.globalObj(x)}
	case *ssa.Builtin:
		return Func{builtin: x}
	}
	i, ok := fr.info.idx[v]
	if !ok {
		panic(engineError{fmt.Sprintf("eval: unknown value %v in %v", v, fr.fn)})
	}
	r := fr.regs[i]
	if r == nil {
		panic(engineError{fmt.Sprintf("eval: unset register %s = %v in %v", v.Name(), v, fr.fn)})
	}
	return r
}

func (in *Interp) evalTerm(fr *Frame, v ssa.Value) *Term {
	r := in.eval(fr, v)
	t, ok := r.(*Term)
	if !ok {
		panic(engineError{fmt.Sprintf("expected scalar for %v, got %T", v, r)})
	}
	return t
}

// to64 widens an integer term of Go type t to 64 bits.
func to64(x *Term, t types.Type) *Term {
	if x.W() == 64 {
		return x
	}
	if isSigned(t) {
		return SExt(x, 64)
	}
	return ZExt(x, 64)
}

func (in *Interp) runHarness() {
	fn := in.h.Fn
	in.ensureInit(fn.Pkg)
	in.callFunction(fn, nil, nil)
}

const maxDepth = 400

func (in *Interp) callFunction(fn *ssa.Function, args []Value, bind []Value) Value {
	if len(fn.Blocks) == 0 {
		panic(engineError{"call to function without body: " + fn.String()})
	}
	if in.depth > maxDepth {
		panic(engineError{"call depth exceeded at " + fn.String()})
	}
	fi := in.info(fn)
	name := fn.String()
	if _, ok := in.funcsSeen[name]; !ok {
		if fn.Pos().IsValid() && strings.Contains(in.ld.prog.Fset.Position(fn.Pos()).Filename, "zz_verif_") {
			in.funcsSeen[name] = 0 // harness-side helper, not code under test
		} else {
			in.funcsSeen[name] = fi.nin
		}
	}
	fr := &Frame{fn: fn, info: fi, regs: make([]Value, fi.n), caller: in.top, bind: bind, visits: make([]int, len(fn.Blocks))}
	if in.initTolerant {
		fr.tolerant = true
		in.initTolerant = false
	}
	if len(args) != len(fn.Params) {
		panic(engineError{fmt.Sprintf("arity mismatch calling %s: %d args, %d params", name, len(args), len(fn.Params))})
	}
	for i, p := range fn.Params {
		fr.regs[fi.idx[p]] = args[i]
	}
	for i, p := range fn.FreeVars {
		fr.regs[fi.idx[p]] = bind[i]
	}
	in.top = fr
	in.depth++
	r := in.runFrame(fr, name)
	in.depth--
	in.top = fr.caller
	return r
}

func (in *Interp) runFrame(fr *Frame, name string) Value {
	fn := fr.fn
	fr.block = fn.Blocks[0]
	for {
		b := fr.block
		fr.visits[b.Index]++
		if fr.visits[b.Index] > in.unwind {
			panic(pathEnd{"unwind", fmt.Sprintf("block %d of %s visited more than %d times", b.Index, name, in.unwind)})
		}
		var next *ssa.BasicBlock
		// phis are evaluated in parallel on entry to the block
		nphi := 0
		if len(b.Instrs) > 0 {
			if _, ok := b.Instrs[0].(*ssa.Phi); ok {
				var vals []Value
				for _, ins := range b.Instrs {
					phi, ok := ins.(*ssa.Phi)
					if !ok {
						break
					}
					var v Value
					found := false
					for i, pred := range b.Preds {
						if pred == fr.prev {
							if fr.tolerant && in.unsetReg(fr, phi.Edges[i]) {
								v = nil
							} else {
								v = in.eval(fr, phi.Edges[i])
							}
							found = true
							break
						}
					}
					if !found {
						panic(engineError{"phi: no matching predecessor"})
					}
					vals = append(vals, v)
				}
				for i, v := range vals {
					fr.regs[fr.info.idx[b.Instrs[i].(*ssa.Phi)]] = v
				}
				nphi = len(vals)
				in.steps += nphi
			}
		}
		for _, ins := range b.Instrs[nphi:] {
			in.steps++
			if in.steps > in.maxSteps {
				panic(pathEnd{"steps", fmt.Sprintf("more than %d instructions on one path", in.maxSteps)})
			}
			fr.curInstr = ins
			switch x := ins.(type) {
			case *ssa.Jump:
				next = b.Succs[0]
			case *ssa.If:
				if fr.tolerant && in.unsetReg(fr, x.Cond) {
					return nil // abandon the rest of a foreign initialiser
				}
				c := in.evalTerm(fr, x.Cond)
				if forkSites != nil {
					curForkSite = fr.fn.String() + " " + in.ld.prog.Fset.Position(x.Pos()).String()
					if !x.Pos().IsValid() {
						curForkSite = fr.fn.String() + " " + in.ld.prog.Fset.Position(x.Cond.Pos()).String()
					}
				}
				if in.p.Decide(c) {
					next = b.Succs[0]
				} else {
					next = b.Succs[1]
				}
			case *ssa.Return:
				switch len(x.Results) {
				case 0:
					return nil
				case 1:
					return in.eval(fr, x.Results[0])
				default:
					tp := make(Tuple, len(x.Results))
					for i, r := range x.Results {
						tp[i] = in.eval(fr, r)
					}
					return tp
				}
			case *ssa.Panic:
				v := in.eval(fr, x.X)
				msg := "explicit panic"
				if iv, ok := v.(Iface); ok && iv.t != nil {
					if s, ok := iv.v.(Str); ok {
						if cs, ok := concreteStr(s); ok {
							msg = cs
						}
					} else {
						msg = "panic(" + iv.t.String() + ")"
					}
				}
				in.panicGo("explicit", msg)
			case *ssa.RunDefers:
				in.runDefers(fr)
			default:
				if fr.tolerant {
					if !in.execTolerant(fr, ins) {
						in.poisonStore(fr, ins)
					}
				} else {
					in.exec(fr, ins)
				}
			}
			if next != nil {
				break
			}
		}
		if next == nil {
			panic(engineError{"block fell through in " + name})
		}
		fr.prev = b
		fr.block = next
	}
}

func (in *Interp) runDefers(fr *Frame) {
	for len(fr.defers) > 0 {
		d := fr.defers[len(fr.defers)-1]
		fr.defers = fr.defers[:len(fr.defers)-1]
		in.invoke(fr, d.fn, d.args, d.call)
	}
}

func (in *Interp) set(fr *Frame, v ssa.Value, val Value) {
	fr.regs[fr.info.idx[v]] = val
}

func (in *Interp) exec(fr *Frame, ins ssa.Instruction) {
	switch x := ins.(type) {
	case *ssa.DebugRef:
	case *ssa.Alloc:
		et := x.Type().(*types.Pointer).Elem()
		o := in.newObject(et, zeroValue(et), x.Comment)
		in.set(fr, x, Ptr{obj: o})
	case *ssa.Phi:
		for i, pred := range fr.block.Preds {
			if pred == fr.prev {
				in.set(fr, x, in.eval(fr, x.Edges[i]))
				return
			}
		}
		panic(engineError{"phi: no matching predecessor"})
	case *ssa.BinOp:
		in.set(fr, x, in.binop(fr, x))
	case *ssa.UnOp:
		in.set(fr, x, in.unop(fr, x))
	case *ssa.Call:
		r := in.doCall(fr, &x.Call)
		if r == nil {
			r = Tuple{}
		}
		in.set(fr, x, r)
	case *ssa.Defer:
		fnv, args := in.prepareCall(fr, &x.Call)
		fr.defers = append(fr.defers, deferred{fn: fnv, args: args, call: &x.Call})
	case *ssa.Go:
		name := "?"
		if c := x.Call.StaticCallee(); c != nil {
			name = c.String()
		} else if x.Call.IsInvoke() {
			name = x.Call.Method.FullName()
		}
		var args []Value
		for _, a := range x.Call.Args {
			args = append(args, in.eval(fr, a))
		}
		if x.Call.IsInvoke() {
			args = append([]Value{in.eval(fr, x.Call.Value)}, args...)
		}
		var callee Value
		if !x.Call.IsInvoke() {
			callee = in.eval(fr, x.Call.Value)
		}
		in.events = append(in.events, Event{Kind: "go", Name: name, Args: args, fn: callee})
	case *ssa.Store:
		p := in.eval(fr, x.Addr).(Ptr)
		in.store(p, in.eval(fr, x.Val))
	case *ssa.FieldAddr:
		p := in.eval(fr, x.X).(Ptr)
		if p.IsNil() {
			in.panicGo("nil dereference", "field address of nil pointer")
		}
		in.set(fr, x, Ptr{obj: p.obj, path: appendPath(p.path, PElem{f: x.Field})})
	case *ssa.Field:
		s := in.eval(fr, x.X).(*Struct)
		in.set(fr, x, s.F[x.Field])
	case *ssa.IndexAddr:
		in.set(fr, x, in.indexAddr(fr, x))
	case *ssa.Index:
		in.set(fr, x, in.index(fr, x))
	case *ssa.Lookup:
		in.set(fr, x, in.lookup(fr, x))
	case *ssa.Slice:
		in.set(fr, x, in.slice(fr, x))
	case *ssa.MakeSlice:
		in.set(fr, x, in.makeSlice(fr, x))
	case *ssa.MakeMap:
		mt := x.Type().Underlying().(*types.Map)
		in.objN++
		in.set(fr, x, MapRef{m: &MapObj{id: in.objN, kt: mt.Key(), vt: mt.Elem()}})
	case *ssa.MakeChan:
		n := in.p.Concretize(to64(in.evalTerm(fr, x.Size), x.Size.Type()), "chan size")
		in.objN++
		in.set(fr, x, ChanRef{c: &ChanObj{id: in.objN, cap: int(n), et: x.Type().Underlying().(*types.Chan).Elem()}})
	case *ssa.MakeClosure:
		f := x.Fn.(*ssa.Function)
		bind := make([]Value, len(x.Bindings))
		for i, b := range x.Bindings {
			bind[i] = in.eval(fr, b)
		}
		in.set(fr, x, Func{fn: f, bind: bind})
	case *ssa.MakeInterface:
		in.set(fr, x, Iface{t: x.X.Type(), v: in.eval(fr, x.X)})
	case *ssa.ChangeInterface:
		in.set(fr, x, in.eval(fr, x.X))
	case *ssa.ChangeType:
		in.set(fr, x, in.eval(fr, x.X))
	case *ssa.Convert:
		in.set(fr, x, in.convert(in.eval(fr, x.X), x.X.Type(), x.Type()))
	case *ssa.MultiConvert:
		in.set(fr, x, in.convert(in.eval(fr, x.X), x.X.Type(), x.Type()))
	case *ssa.Extract:
		t := in.eval(fr, x.Tuple).(Tuple)
		in.set(fr, x, t[x.Index])
	case *ssa.TypeAssert:
		in.set(fr, x, in.typeAssert(fr, x))
	case *ssa.MapUpdate:
		m := in.eval(fr, x.Map).(MapRef)
		if m.m == nil {
			in.panicGo("nil map", "assignment to entry in nil map")
		}
		in.mapSet(m.m, in.eval(fr, x.Key), copyVal(in.eval(fr, x.Value)))
	case *ssa.Range:
		switch v := in.eval(fr, x.X).(type) {
		case MapRef:
			it := &MapIter{}
			if v.m != nil {
				// snapshot of live entries
				snap := &MapObj{}
				for _, e := range v.m.entries {
					if !e.dead {
						snap.entries = append(snap.entries, e)
					}
				}
				it.m = snap
			}
			in.set(fr, x, it)
		case Str:
			s := v
			in.set(fr, x, &MapIter{str: &s})
		default:
			panic(engineError{"range over unsupported value"})
		}
	case *ssa.Next:
		in.set(fr, x, in.next(fr, x))
	case *ssa.Send:
		c := in.eval(fr, x.Chan).(ChanRef)
		in.chanSend(c, in.eval(fr, x.X))
	case *ssa.Select:
		in.set(fr, x, in.selectStmt(fr, x))
	case *ssa.SliceToArrayPointer:
		s := in.eval(fr, x.X).(Slice)
		n := x.Type().(*types.Pointer).Elem().Underlying().(*types.Array).Len()
		in.requireOrPanic(ULe(C64(uint64(n)), s.len), "slice to array", "slice shorter than array")
		if off, ok := s.off.ConstVal(); ok && off == 0 {
			if ln, ok := in.arrayAt(s.obj, s.path).(*SArr); ok {
				if c, ok := ln.n.ConstVal(); ok && c == uint64(n) {
					in.set(fr, x, Ptr{obj: s.obj, path: s.path})
					return
				}
			}
		}
		// general case: the pointer is (almost always) dereferenced at once
		// ([N]T(slice)); hand out a pointer to a snapshot of the region
		if a, ok := in.arrayAt(s.obj, s.path).(*SArr); ok {
			cp := newSArrZero(a.w, C64(uint64(n)))
			cp.copyFrom(C64(0), a.r, s.off, C64(uint64(n)))
			o := in.newObject(x.Type().(*types.Pointer).Elem(), cp, "array-view")
			in.p.ex.res.Assumptions = appendUnique(in.p.ex.res.Assumptions, "slice-to-array-pointer conversions at a non-zero offset are modelled as a snapshot (writes through the pointer would not reach the slice)")
			in.set(fr, x, Ptr{obj: o})
			return
		}
		panic(engineError{"SliceToArrayPointer on non-scalar slice"})
	default:
		panic(engineError{fmt.Sprintf("unsupported instruction %T: %v", ins, ins)})
	}
}

func appendPath(p []PElem, e PElem) []PElem {
	n := make([]PElem, len(p)+1)
	copy(n, p)
	n[len(p)] = e
	return n
}

// --- memory ---

func (in *Interp) arrayAt(o *Object, path []PElem) Value {
	v := o.v
	for _, e := range path {
		switch x := v.(type) {
		case *Struct:
			v = x.F[e.f]
		case *Array:
			i := in.p.Concretize(e.idx, "array index")
			v = x.E[i]
		default:
			panic(engineError{fmt.Sprintf("arrayAt: cannot descend into %T", v)})
		}
	}
	return v
}

func (in *Interp) load(p Ptr, t types.Type) Value {
	if p.IsNil() {
		in.panicGo("nil dereference", "load through nil pointer")
	}
	if p.obj.opaque {
		return in.havoc(t, "opaque")
	}
	v := p.obj.v
	for k, e := range p.path {
		switch x := v.(type) {
		case *Struct:
			v = x.F[e.f]
		case *Array:
			i := in.p.Concretize(e.idx, "array index")
			if i >= uint64(len(x.E)) {
				panic(engineError{"load: array index out of range (unchecked)"})
			}
			v = x.E[i]
		case *SArr:
			if k != len(p.path)-1 {
				panic(engineError{"load: path continues past scalar array"})
			}
			return x.get(e.idx)
		default:
			panic(engineError{fmt.Sprintf("load: cannot descend into %T (obj %s)", v, p.obj.name)})
		}
	}
	return copyVal(v)
}

func (in *Interp) store(p Ptr, val Value) {
	if p.IsNil() {
		in.panicGo("nil dereference", "store through nil pointer")
	}
	if p.obj.opaque {
		return
	}
	val = copyVal(val)
	if len(p.path) == 0 {
		p.obj.v = val
		return
	}
	v := p.obj.v
	for k, e := range p.path {
		last := k == len(p.path)-1
		switch x := v.(type) {
		case *Struct:
			if last {
				x.F[e.f] = val
				return
			}
			v = x.F[e.f]
		case *Array:
			i := in.p.Concretize(e.idx, "array index")
			if last {
				x.E[i] = val
				return
			}
			v = x.E[i]
		case *SArr:
			if !last {
				panic(engineError{"store: path continues past scalar array"})
			}
			x.set(e.idx, val.(*Term))
			return
		default:
			panic(engineError{fmt.Sprintf("store: cannot descend into %T", v)})
		}
	}
}

// havoc returns an unconstrained value of type t.
func (in *Interp) havoc(t types.Type, tag string) Value {
	switch u := t.Underlying().(type) {
	case *types.Basic:
		switch {
		case u.Info()&types.IsBoolean != 0:
			return in.p.fresh(tag, BoolSort)
		case u.Info()&types.IsString != 0:
			return strLit("?" + tag)
		case u.Kind() == types.UnsafePointer:
			return Ptr{}
		default:
			return in.p.fresh(tag, BV(basicWidth(u)))
		}
	case *types.Pointer:
		o := in.newObject(u.Elem(), nil, "opaque:"+tag)
		o.opaque = true
		return Ptr{obj: o}
	case *types.Struct:
		s := &Struct{F: make([]Value, u.NumFields())}
		for i := range s.F {
			s.F[i] = in.havoc(u.Field(i).Type(), tag)
		}
		return s
	case *types.Tuple:
		tp := make(Tuple, u.Len())
		for i := range tp {
			tp[i] = in.havoc(u.At(i).Type(), tag)
		}
		return tp
	case *types.Interface:
		if t.String() == "error" {
			return Iface{} // havoc'd calls succeed by default
		}
		return Iface{}
	}
	return zeroValue(t)
}

// --- indexing / slicing ---

func (in *Interp) idx64(fr *Frame, v ssa.Value) *Term {
	return to64(in.evalTerm(fr, v), v.Type())
}

func (in *Interp) indexAddr(fr *Frame, x *ssa.IndexAddr) Value {
	i := in.idx64(fr, x.Index)
	switch b := in.eval(fr, x.X).(type) {
	case Slice:
		in.requireOrPanic(ULt(i, b.lenOr0()), "index out of range", fmt.Sprintf("index %v, len %v", i, b.lenOr0()))
		return Ptr{obj: b.obj, path: appendPath(b.path, PElem{f: -1, idx: Add(b.off, i)})}
	case Ptr:
		if b.IsNil() {
			in.panicGo("nil dereference", "index of nil array pointer")
		}
		n := x.X.Type().Underlying().(*types.Pointer).Elem().Underlying().(*types.Array).Len()
		in.requireOrPanic(ULt(i, C64(uint64(n))), "index out of range", fmt.Sprintf("index %v, array len %d", i, n))
		return Ptr{obj: b.obj, path: appendPath(b.path, PElem{f: -1, idx: i})}
	}
	panic(engineError{"indexAddr: unsupported base"})
}

func (s Slice) lenOr0() *Term {
	if s.obj == nil {
		return C64(0)
	}
	return s.len
}

func (s Slice) capOr0() *Term {
	if s.obj == nil {
		return C64(0)
	}
	return s.cap
}

func (in *Interp) index(fr *Frame, x *ssa.Index) Value {
	i := in.idx64(fr, x.Index)
	switch b := in.eval(fr, x.X).(type) {
	case *SArr:
		in.requireOrPanic(ULt(i, b.n), "index out of range", "array index")
		return b.get(i)
	case *Array:
		in.requireOrPanic(ULt(i, C64(uint64(len(b.E)))), "index out of range", "array index")
		k := in.p.Concretize(i, "array index")
		return b.E[k]
	case Str:
		in.requireOrPanic(ULt(i, b.n), "index out of range", fmt.Sprintf("string index %v, len %v", i, b.n))
		return b.r.sel(Add(b.off, i))
	}
	panic(engineError{"index: unsupported base"})
}

func (in *Interp) lookup(fr *Frame, x *ssa.Lookup) Value {
	switch b := in.eval(fr, x.X).(type) {
	case Str:
		i := in.idx64(fr, x.Index)
		in.requireOrPanic(ULt(i, b.n), "index out of range", fmt.Sprintf("string index %v, len %v", i, b.n))
		return b.r.sel(Add(b.off, i))
	case MapRef:
		k := in.eval(fr, x.Index)
		mt := x.X.Type().Underlying().(*types.Map)
		var v Value
		found := false
		if b.m != nil {
			if e := in.mapFind(b.m, k); e != nil {
				v, found = copyVal(e.v), true
			}
		}
		if !found {
			v = zeroValue(mt.Elem())
		}
		if x.CommaOk {
			return Tuple{v, Bool(found)}
		}
		return v
	}
	panic(engineError{"lookup: unsupported base"})
}

func (in *Interp) mapFind(m *MapObj, k Value) *MapEntry {
	for _, e := range m.entries {
		if e.dead {
			continue
		}
		if in.p.Decide(in.valEq(e.k, k)) {
			return e
		}
	}
	return nil
}

func (in *Interp) mapSet(m *MapObj, k, v Value) {
	if e := in.mapFind(m, k); e != nil {
		e.v = v
		return
	}
	m.entries = append(m.entries, &MapEntry{k: k, v: v})
}

func (in *Interp) mapDelete(m *MapObj, k Value) {
	if m == nil {
		return
	}
	if e := in.mapFind(m, k); e != nil {
		e.dead = true
	}
}

func mapLen(m *MapObj) int {
	n := 0
	if m != nil {
		for _, e := range m.entries {
			if !e.dead {
				n++
			}
		}
	}
	return n
}

func (in *Interp) next(fr *Frame, x *ssa.Next) Value {
	it := in.eval(fr, x.Iter).(*MapIter)
	if x.IsString {
		s := it.str
		n := in.p.Concretize(s.n, "string range length")
		if uint64(it.it) >= n {
			return Tuple{TFalse, Const(64, 0), Const(32, 0)}
		}
		c := s.r.sel(Add(s.off, C64(uint64(it.it))))
		// ASCII only
		in.p.addPCChecked(ULt(c, Const(8, 0x80)), "non-ASCII byte in string range (engine restriction)")
		k := it.it
		it.it++
		return Tuple{TTrue, Const(64, uint64(k)), ZExt(c, 32)}
	}
	tt := x.Type().(*types.Tuple)
	for it.m != nil && it.pos < len(it.m.entries) {
		e := it.m.entries[it.pos]
		it.pos++
		if e.dead {
			continue
		}
		return Tuple{TTrue, e.k, copyVal(e.v)}
	}
	return Tuple{TFalse, zeroValue(tt.At(1).Type()), zeroValue(tt.At(2).Type())}
}

// addPCChecked assumes c (an engine restriction); if c is infeasible the path is pruned.
func (p *Path) addPCChecked(c *Term, why string) {
	if c == TTrue {
		return
	}
	if p.check(Not(c)) != Unsat {
		p.ex.res.Assumptions = appendUnique(p.ex.res.Assumptions, why)
	}
	if !p.Assume(c) {
		panic(pathEnd{"pruned", why})
	}
}

func appendUnique(a []string, s string) []string {
	for _, x := range a {
		if x == s {
			return a
		}
	}
	return append(a, s)
}

func (in *Interp) slice(fr *Frame, x *ssa.Slice) Value {
	var lo, hi, max *Term
	if x.Low != nil {
		lo = in.idx64(fr, x.Low)
	} else {
		lo = C64(0)
	}
	if x.High != nil {
		hi = in.idx64(fr, x.High)
	}
	if x.Max != nil {
		max = in.idx64(fr, x.Max)
	}
	switch b := in.eval(fr, x.X).(type) {
	case Str:
		if hi == nil {
			hi = b.n
		}
		in.requireOrPanic(BAnd(ULe(lo, hi), ULe(hi, b.n)), "slice bounds out of range", fmt.Sprintf("string [%v:%v] len %v", lo, hi, b.n))
		return Str{r: b.r, off: Add(b.off, lo), n: Sub(hi, lo)}
	case Slice:
		cp := b.capOr0()
		if hi == nil {
			hi = b.lenOr0()
		}
		if max == nil {
			max = cp
		}
		in.requireOrPanic(AndAll(ULe(lo, hi), ULe(hi, max), ULe(max, cp)), "slice bounds out of range", fmt.Sprintf("[%v:%v:%v] cap %v", lo, hi, max, cp))
		if b.obj == nil {
			return Slice{}
		}
		return Slice{obj: b.obj, path: b.path, off: Add(b.off, lo), len: Sub(hi, lo), cap: Sub(max, lo)}
	case Ptr:
		if b.IsNil() {
			in.panicGo("nil dereference", "slice of nil array pointer")
		}
		n := C64(uint64(x.X.Type().Underlying().(*types.Pointer).Elem().Underlying().(*types.Array).Len()))
		if hi == nil {
			hi = n
		}
		if max == nil {
			max = n
		}
		in.requireOrPanic(AndAll(ULe(lo, hi), ULe(hi, max), ULe(max, n)), "slice bounds out of range", fmt.Sprintf("array [%v:%v:%v] len %v", lo, hi, max, n))
		return Slice{obj: b.obj, path: b.path, off: lo, len: Sub(hi, lo), cap: Sub(max, lo)}
	}
	panic(engineError{"slice: unsupported base"})
}

func (in *Interp) makeSlice(fr *Frame, x *ssa.MakeSlice) Value {
	ln := in.idx64(fr, x.Len)
	cp := in.idx64(fr, x.Cap)
	et := x.Type().Underlying().(*types.Slice).Elem()
	return in.makeSliceOf(et, ln, cp)
}

const maxAllocElems = uint64(1) << 40

func (in *Interp) makeSliceOf(et types.Type, ln, cp *Term) Slice {
	// Go panics for negative or absurd sizes.
	ok := BAnd(ULe(ln, cp), ULt(cp, C64(maxAllocElems)))
	in.requireOrPanic(ok, "makeslice: len out of range", fmt.Sprintf("make len=%v cap=%v", ln, cp))
	if in.allocLimit != nil {
		if !in.p.MustHold(ULe(cp, in.allocLimit), "alloc", "allocation exceeds limit @ "+in.top.fn.String(), fmt.Sprintf("make cap=%v limit=%v", cp, in.allocLimit), in) {
			panic(pathEnd{"pruned", "alloc"})
		}
	}
	if w := intWidth(et); w > 0 {
		o := in.newObject(types.NewSlice(et), newSArrZero(w, cp), "make")
		return Slice{obj: o, off: C64(0), len: ln, cap: cp}
	}
	n := in.p.Concretize(cp, "make of non-scalar slice")
	if n > 1<<16 {
		panic(engineError{"make of large non-scalar slice"})
	}
	a := &Array{E: make([]Value, n)}
	for i := range a.E {
		a.E[i] = zeroValue(et)
	}
	o := in.newObject(types.NewSlice(et), a, "make")
	l := in.p.Concretize(ln, "make len")
	return Slice{obj: o, off: C64(0), len: C64(l), cap: C64(n)}
}

// --- type assertions ---

func (in *Interp) typeAssert(fr *Frame, x *ssa.TypeAssert) Value {
	v := in.eval(fr, x.X).(Iface)
	ok := false
	var res Value
	if types.IsInterface(x.AssertedType) {
		if v.t != nil {
			it := x.AssertedType.Underlying().(*types.Interface)
			ok = types.Implements(v.t, it)
		}
		if ok {
			res = v
		} else {
			res = Iface{}
		}
	} else {
		ok = v.t != nil && types.Identical(v.t, x.AssertedType)
		if ok {
			res = v.v
		} else {
			res = zeroValue(x.AssertedType)
		}
	}
	if x.CommaOk {
		return Tuple{res, Bool(ok)}
	}
	if !ok {
		in.panicGo("type assertion", fmt.Sprintf("interface conversion: %v is not %v", v.t, x.AssertedType))
	}
	return res
}

// --- conversions ---

func (in *Interp) convert(v Value, from, to types.Type) Value {
	fu, tu := from.Underlying(), to.Underlying()
	if fb, ok := fu.(*types.Basic); ok {
		if tb, ok := tu.(*types.Basic); ok {
			fi, ti := fb.Info(), tb.Info()
			switch {
			case fi&types.IsInteger != 0 && ti&types.IsInteger != 0:
				x := v.(*Term)
				fw, tw := basicWidth(fb), basicWidth(tb)
				if tw == fw {
					return x
				}
				if tw < fw {
					return Extract(x, tw-1, 0)
				}
				if fi&types.IsUnsigned == 0 {
					return SExt(x, tw)
				}
				return ZExt(x, tw)
			case fi&types.IsFloat != 0 && ti&types.IsFloat != 0:
				return v
			case fi&types.IsInteger != 0 && ti&types.IsFloat != 0:
				if c, ok := v.(*Term).ConstVal(); ok {
					if fi&types.IsUnsigned != 0 {
						return Const(64, math.Float64bits(float64(c)))
					}
					return Const(64, math.Float64bits(float64(signExt(c, basicWidth(fb)))))
				}
				return in.p.fresh("float", BV(64))
			case fi&types.IsFloat != 0 && ti&types.IsInteger != 0:
				if c, ok := v.(*Term).ConstVal(); ok {
					f := math.Float64frombits(c)
					if ti&types.IsUnsigned != 0 {
						return Const(basicWidth(tb), uint64(f))
					}
					return Const(basicWidth(tb), uint64(int64(f)))
				}
				return in.p.fresh("f2i", BV(basicWidth(tb)))
			case fi&types.IsString != 0 && ti&types.IsString != 0:
				return v
			case fi&types.IsInteger != 0 && ti&types.IsString != 0:
				if c, ok := v.(*Term).ConstVal(); ok {
					return strLit(string(rune(c)))
				}
				panic(engineError{"string(symbolic rune)"})
			case tb.Kind() == types.UnsafePointer || fb.Kind() == types.UnsafePointer:
				panic(engineError{"unsafe.Pointer conversion"})
			}
		}
		// string -> []byte / []rune
		if fb.Info()&types.IsString != 0 {
			if ts, ok := tu.(*types.Slice); ok {
				s := v.(Str)
				if intWidth(ts.Elem()) == 8 {
					a := newSArrZero(8, s.n)
					a.copyFrom(C64(0), s.r, s.off, s.n)
					o := in.newObject(to, a, "[]byte(string)")
					return Slice{obj: o, off: C64(0), len: s.n, cap: s.n}
				}
				if cs, ok := concreteStr(s); ok {
					rs := []rune(cs)
					a := newSArrZero(32, C64(uint64(len(rs))))
					for i, r := range rs {
						a.set(C64(uint64(i)), Const(32, uint64(r)))
					}
					o := in.newObject(to, a, "[]rune(string)")
					return Slice{obj: o, off: C64(0), len: a.n, cap: a.n}
				}
				panic(engineError{"[]rune(symbolic string)"})
			}
		}
	}
	if fs, ok := fu.(*types.Slice); ok {
		if tb, ok := tu.(*types.Basic); ok && tb.Info()&types.IsString != 0 {
			s := v.(Slice)
			if s.obj == nil {
				return strLit("")
			}
			if intWidth(fs.Elem()) == 8 {
				a := in.arrayAt(s.obj, s.path).(*SArr)
				c := a.clone()
				return Str{r: c.r, off: s.off, n: s.len}
			}
			panic(engineError{"string([]rune)"})
		}
		if _, ok := tu.(*types.Slice); ok {
			return v
		}
		if tp, ok := tu.(*types.Pointer); ok {
			// slice to array pointer
			if ta, ok := tp.Elem().Underlying().(*types.Array); ok {
				s := v.(Slice)
				in.requireOrPanic(ULe(C64(uint64(ta.Len())), s.lenOr0()), "slice to array", "slice shorter than array")
				if off, ok := s.off.ConstVal(); ok && off == 0 {
					return Ptr{obj: s.obj, path: s.path}
				}
			}
		}
		if ta, ok := tu.(*types.Array); ok {
			s := v.(Slice)
			n := uint64(ta.Len())
			in.requireOrPanic(ULe(C64(n), s.lenOr0()), "slice to array", "slice shorter than array")
			if w := intWidth(ta.Elem()); w > 0 {
				r := newSArrZero(w, C64(n))
				if s.obj != nil {
					r.copyFrom(C64(0), in.arrayAt(s.obj, s.path).(*SArr).r, s.off, C64(n))
				}
				return r
			}
		}
	}
	if types.Identical(fu, tu) {
		return v
	}
	panic(engineError{fmt.Sprintf("convert %v -> %v unsupported", from, to)})
}

// --- operators ---

func (in *Interp) unop(fr *Frame, x *ssa.UnOp) Value {
	switch x.Op {
	case token.MUL:
		p := in.eval(fr, x.X).(Ptr)
		return in.load(p, x.Type())
	case token.NOT:
		return Not(in.evalTerm(fr, x.X))
	case token.SUB:
		if isFloat(x.Type()) {
			t := in.evalTerm(fr, x.X)
			if c, ok := t.ConstVal(); ok {
				return Const(64, math.Float64bits(-math.Float64frombits(c)))
			}
			return in.p.fresh("fneg", BV(64))
		}
		return Neg(in.evalTerm(fr, x.X))
	case token.XOR:
		return BVNot(in.evalTerm(fr, x.X))
	case token.ARROW:
		c := in.eval(fr, x.X).(ChanRef)
		v, ok := in.chanRecv(c)
		if x.CommaOk {
			return Tuple{v, Bool(ok)}
		}
		return v
	}
	panic(engineError{"unop " + x.Op.String()})
}

func (in *Interp) binop(fr *Frame, x *ssa.BinOp) Value {
	a, b := in.eval(fr, x.X), in.eval(fr, x.Y)
	t := x.X.Type()
	switch x.Op {
	case token.EQL:
		return in.valEq(a, b)
	case token.NEQ:
		return Not(in.valEq(a, b))
	}
	if isString(t) {
		sa, sb := a.(Str), b.(Str)
		switch x.Op {
		case token.ADD:
			return in.strConcat(sa, sb)
		case token.LSS, token.LEQ, token.GTR, token.GEQ:
			ca, ok1 := concreteStr(sa)
			cb, ok2 := concreteStr(sb)
			if ok1 && ok2 {
				switch x.Op {
				case token.LSS:
					return Bool(ca < cb)
				case token.LEQ:
					return Bool(ca <= cb)
				case token.GTR:
					return Bool(ca > cb)
				default:
					return Bool(ca >= cb)
				}
			}
			panic(engineError{"ordered comparison of symbolic strings"})
		}
	}
	if isFloat(t) {
		return in.floatOp(x.Op, a.(*Term), b.(*Term))
	}
	if isBoolT(t) {
		ta, tb := a.(*Term), b.(*Term)
		switch x.Op {
		case token.AND, token.LAND:
			return BAnd(ta, tb)
		case token.OR, token.LOR:
			return BOr(ta, tb)
		case token.XOR:
			return Not(Eq(ta, tb))
		}
	}
	ta, ok1 := a.(*Term)
	tb, ok2 := b.(*Term)
	if !ok1 || !ok2 {
		panic(engineError{fmt.Sprintf("binop %s on %T,%T", x.Op, a, b)})
	}
	signed := isSigned(t)
	w := ta.W()
	switch x.Op {
	case token.ADD:
		return Add(ta, tb)
	case token.SUB:
		return Sub(ta, tb)
	case token.MUL:
		return Mul(ta, tb)
	case token.QUO:
		in.requireOrPanic(Not(Eq(tb, Const(w, 0))), "integer divide by zero", "division")
		if signed {
			return SDiv(ta, tb)
		}
		return UDiv(ta, tb)
	case token.REM:
		in.requireOrPanic(Not(Eq(tb, Const(w, 0))), "integer divide by zero", "remainder")
		if signed {
			return SRem(ta, tb)
		}
		return URem(ta, tb)
	case token.AND:
		return And(ta, tb)
	case token.OR:
		return Or(ta, tb)
	case token.XOR:
		return Xor(ta, tb)
	case token.AND_NOT:
		return And(ta, BVNot(tb))
	case token.SHL, token.SHR:
		yt := x.Y.Type()
		if isSigned(yt) {
			in.requireOrPanic(SLe(Const(tb.W(), 0), tb), "negative shift amount", "shift")
		}
		// normalise shift count to width w with saturation
		var cnt *Term
		if tb.W() > w {
			big := ULe(Const(tb.W(), uint64(w)), tb)
			cnt = Ite(big, Const(w, uint64(w)), Extract(tb, w-1, 0))
		} else {
			cnt = ZExt(tb, w)
		}
		if x.Op == token.SHL {
			return Shl(ta, cnt)
		}
		if signed {
			return AShr(ta, cnt)
		}
		return LShr(ta, cnt)
	case token.LSS:
		if signed {
			return SLt(ta, tb)
		}
		return ULt(ta, tb)
	case token.LEQ:
		if signed {
			return SLe(ta, tb)
		}
		return ULe(ta, tb)
	case token.GTR:
		if signed {
			return SLt(tb, ta)
		}
		return ULt(tb, ta)
	case token.GEQ:
		if signed {
			return SLe(tb, ta)
		}
		return ULe(tb, ta)
	}
	panic(engineError{"binop " + x.Op.String()})
}

func (in *Interp) floatOp(op token.Token, a, b *Term) Value {
	ca, ok1 := a.ConstVal()
	cb, ok2 := b.ConstVal()
	if ok1 && ok2 {
		fa, fb := math.Float64frombits(ca), math.Float64frombits(cb)
		switch op {
		case token.ADD:
			return Const(64, math.Float64bits(fa+fb))
		case token.SUB:
			return Const(64, math.Float64bits(fa-fb))
		case token.MUL:
			return Const(64, math.Float64bits(fa*fb))
		case token.QUO:
			return Const(64, math.Float64bits(fa/fb))
		case token.LSS:
			return Bool(fa < fb)
		case token.LEQ:
			return Bool(fa <= fb)
		case token.GTR:
			return Bool(fa > fb)
		case token.GEQ:
			return Bool(fa >= fb)
		}
	}
	switch op {
	case token.ADD, token.SUB, token.MUL, token.QUO:
		return in.p.fresh("float", BV(64))
	}
	return in.p.fresh("fcmp", BoolSort)
}

// valEq is Go's == on two values of the same static type.
func (in *Interp) valEq(a, b Value) *Term {
	switch x := a.(type) {
	case *Term:
		return Eq(x, b.(*Term))
	case Ptr:
		y, ok := b.(Ptr)
		if !ok {
			panic(engineError{fmt.Sprintf("valEq Ptr vs %T", b)})
		}
		if x.obj == nil || y.obj == nil {
			return Bool(x.obj == nil && y.obj == nil)
		}
		if x.obj != y.obj {
			return TFalse
		}
		return pathEq(x.path, y.path)
	case Str:
		y := b.(Str)
		return in.seqEq(x.r, x.off, x.n, y.r, y.off, y.n)
	case Iface:
		y := b.(Iface)
		if x.t == nil || y.t == nil {
			return Bool(x.t == nil && y.t == nil)
		}
		if !types.Identical(x.t, y.t) {
			return TFalse
		}
		return in.valEq(x.v, y.v)
	case *Struct:
		y := b.(*Struct)
		r := TTrue
		for i := range x.F {
			r = BAnd(r, in.valEq(x.F[i], y.F[i]))
		}
		return r
	case *Array:
		y := b.(*Array)
		r := TTrue
		for i := range x.E {
			r = BAnd(r, in.valEq(x.E[i], y.E[i]))
		}
		return r
	case *SArr:
		y := b.(*SArr)
		return in.seqEq(x.r, C64(0), x.n, y.r, C64(0), y.n)
	case Slice:
		y := b.(Slice)
		if x.obj == nil || y.obj == nil {
			return Bool(x.obj == nil && y.obj == nil)
		}
		panic(engineError{"slice == slice"})
	case MapRef:
		return Bool(x.m == b.(MapRef).m)
	case ChanRef:
		return Bool(x.c == b.(ChanRef).c)
	case Func:
		y := b.(Func)
		if x.IsNil() || y.IsNil() {
			return Bool(x.IsNil() && y.IsNil())
		}
		return Bool(x.fn == y.fn && x.builtin == y.builtin)
	case Tuple:
		y := b.(Tuple)
		r := TTrue
		for i := range x {
			r = BAnd(r, in.valEq(x[i], y[i]))
		}
		return r
	}
	panic(engineError{fmt.Sprintf("valEq: unsupported %T", a)})
}

const seqEqMax = 8192

// seqEq: equality of two element sequences (length and content).
func (in *Interp) seqEq(ra Rope, offa, na *Term, rb Rope, offb, nb *Term) *Term {
	lenEq := Eq(na, nb)
	if lenEq == TFalse {
		return TFalse
	}
	ca, oka := na.ConstVal()
	cb, okb := nb.ConstVal()
	var n uint64
	guard := false
	switch {
	case oka:
		n = ca
	case okb:
		n = cb
	default:
		_, ha := na.Bounds()
		_, hb := nb.Bounds()
		n = ha
		if hb < n {
			n = hb
		}
		if n > 64 {
			ua := in.p.UpperBound(na, 64)
			if ua < n {
				n = ua
			}
		}
		if n > 64 {
			ub := in.p.UpperBound(nb, 64)
			if ub < n {
				n = ub
			}
		}
		guard = true
	}
	if n > seqEqMax {
		panic(engineError{fmt.Sprintf("sequence comparison of up to %d elements", n)})
	}
	r := lenEq
	for i := uint64(0); i < n; i++ {
		e := Eq(ra.sel(Add(offa, C64(i))), rb.sel(Add(offb, C64(i))))
		if guard {
			e = BOr(ULe(na, C64(i)), e)
		}
		r = BAnd(r, e)
		if r == TFalse {
			return r
		}
	}
	return r
}

// UpperBound finds the largest feasible value of t under the path condition,
// if it is at most... (binary search with the solver). Returns a sound upper
// bound (possibly the syntactic one).
func (p *Path) UpperBound(t *Term, hint uint64) uint64 {
	_, hi := t.Bounds()
	if hi <= hint {
		return hi
	}
	// try doubling from hint
	for b := hint; b < hi; b = b*2 + 1 {
		if p.check(ULt(Const(t.W(), b), t)) == Unsat {
			return b
		}
		if b > 1<<20 {
			break
		}
	}
	return hi
}

func (in *Interp) strConcat(a, b Str) Str {
	if ca, ok := a.n.ConstVal(); ok && ca == 0 {
		return b
	}
	if cb, ok := b.n.ConstVal(); ok && cb == 0 {
		return a
	}
	n := Add(a.n, b.n)
	arr := newSArrZero(8, n)
	arr.copyFrom(C64(0), a.r, a.off, a.n)
	arr.copyFrom(a.n, b.r, b.off, b.n)
	if o, ok := arr.r.(*ropeOverlay); ok {
		o.frozen = true
	}
	return Str{r: arr.r, off: C64(0), n: n}
}

// --- channels ---

func (in *Interp) blocked(what string) {
	if in.onBlock != nil {
		// a goroutine-loop body under test has come round to its blocking
		// point: run the registered post-condition and end the path normally
		f := *in.onBlock
		in.onBlock = nil
		in.invoke(in.top, f, nil, nil)
		panic(pathEnd{"ok", "blocked after onBlock: " + what})
	}
	if in.blockingIsViolation {
		in.p.ex.report(&Violation{Harness: in.h.Name, Label: "blocks forever: " + what + " @ " + in.top.fn.String(), Kind: "blocked", Msg: what, Model: in.p.ex.modelNow(in.p), Trace: in.stackTrace()})
	}
	panic(pathEnd{"blocked", what})
}

func (in *Interp) chanSend(c ChanRef, v Value) {
	if c.c == nil {
		in.blocked("send on nil channel")
	}
	if c.c.closed {
		in.panicGo("send on closed channel", "")
	}
	if len(c.c.buf) >= c.c.cap {
		in.blocked(fmt.Sprintf("send on full channel (cap %d)", c.c.cap))
	}
	c.c.buf = append(c.c.buf, copyVal(v))
}

func (in *Interp) chanRecv(c ChanRef) (Value, bool) {
	if c.c == nil {
		in.blocked("receive on nil channel")
	}
	if len(c.c.buf) > 0 {
		v := c.c.buf[0]
		c.c.buf = c.c.buf[1:]
		return v, true
	}
	if c.c.closed {
		return zeroValue(c.c.et), false
	}
	in.blocked("receive on empty channel")
	return nil, false
}

func (in *Interp) selectStmt(fr *Frame, x *ssa.Select) Value {
	// result tuple: (index int, recvOk bool, r_0 T_0, ... )
	var ready []int
	for i, st := range x.States {
		c := in.eval(fr, st.Chan).(ChanRef)
		if c.c == nil {
			continue
		}
		if st.Dir == types.SendOnly {
			if c.c.closed || len(c.c.buf) < c.c.cap {
				ready = append(ready, i)
			}
		} else {
			if len(c.c.buf) > 0 || c.c.closed {
				ready = append(ready, i)
			}
		}
	}
	mk := func(idx int, ok bool, recvIdx int, recvVal Value) Value {
		tp := Tuple{Const(64, uint64(int64(idx))), Bool(ok)}
		for i, st := range x.States {
			if st.Dir == types.RecvOnly {
				et := st.Chan.Type().Underlying().(*types.Chan).Elem()
				if i == recvIdx {
					tp = append(tp, recvVal)
				} else {
					tp = append(tp, zeroValue(et))
				}
			}
		}
		return tp
	}
	if len(ready) == 0 {
		if !x.Blocking {
			return mk(-1, false, -1, nil)
		}
		in.blocked("select with no ready case")
	}
	k := ready[in.p.Choose(len(ready))]
	st := x.States[k]
	c := in.eval(fr, st.Chan).(ChanRef)
	if st.Dir == types.SendOnly {
		in.chanSend(c, in.eval(fr, st.Send))
		return mk(k, false, -1, nil)
	}
	v, ok := in.chanRecv(c)
	return mk(k, ok, k, v)
}

// fork-site profiling (VERIF_FORKS=1): where do paths split?
var forkSites map[string]int
var curForkSite string
