package main

// Depth-first path exploration by re-execution: every path is run from the
// start of the harness following a prefix of recorded decisions; no state is
// ever cloned. Feasibility of each side of a symbolic branch is decided by the
// solver; decisions inside the prefix are replayed without solver calls.

import (
	"fmt"
	"os"
	"sort"
	"strings"
	"time"
)

type engineError struct{ msg string }

func (e engineError) Error() string { return e.msg }

type pathEnd struct {
	status string // ok | panic | blocked | pruned | unwind | steps
	msg    string
}

type Decision struct {
	val    uint64
	forced bool
}

type Nondet struct {
	Tag   string
	Kind  string // u8 u16 u32 u64 int bool bytes
	t     *Term  // scalar term, or length term for bytes
	arr   *Term  // array symbol for bytes
	maxN  int    // bytes: max length used for model extraction
	Value uint64 // filled from model
	Bytes []byte
}

type Violation struct {
	Harness string
	Label   string
	Kind    string // assert | panic | blocked | unwind
	Model   []Nondet
	Msg     string
	Trace   []string
}

type CoverInfo struct {
	Paths int
}

type HarnessResult struct {
	Name          string
	Paths         int
	PathsByStatus map[string]int
	Obligations   int
	Trivial       int
	Discharged    int
	Unknown       int
	Violations    []*Violation
	Covers        map[string]int
	CoverExpected []string
	Steps         int64
	MaxPathSteps  int
	SolverQueries int
	SolverTime    float64
	SolverMax     float64
	Funcs         map[string]int // function -> SSA instruction count executed (static size)
	Stubs         map[string]int
	Inconclusive  []string
	Samples       []string
	Wall          float64
	Unwind        int
	Assumptions   []string
}

type Explorer struct {
	solver     *Solver
	pending    [][]Decision
	res        *HarnessResult
	maxPaths   int
	seenViol   map[string]bool
	start      time.Time
	deadline   time.Time
	qTimeoutMs int
}

type Path struct {
	ex      *Explorer
	prefix  []Decision
	trace   []Decision
	pc      []*Term
	nondets []*Nondet
	symN    int
	covers  map[string]bool
	unknown int
	notes   []string
	pcSet   map[*Term]bool
}

func (p *Path) fresh(tag string, s Sort) *Term {
	p.symN++
	return Sym(fmt.Sprintf("%s!%d", sanitizeTag(tag), p.symN), s)
}

func sanitizeTag(t string) string {
	var sb strings.Builder
	for _, c := range t {
		if c >= 'a' && c <= 'z' || c >= 'A' && c <= 'Z' || c >= '0' && c <= '9' || c == '_' || c == '.' {
			sb.WriteRune(c)
		} else {
			sb.WriteRune('_')
		}
	}
	if sb.Len() == 0 {
		return "v"
	}
	return sb.String()
}

func (p *Path) addPC(c *Term) {
	if c == TTrue {
		return
	}
	if p.pcSet == nil {
		p.pcSet = map[*Term]bool{}
	}
	addConj(p.pcSet, c)
	p.pc = append(p.pc, c)
	p.ex.solver.Assert(c)
}

func addConj(m map[*Term]bool, c *Term) {
	for c.op == OpBAnd {
		addConj(m, c.args[0])
		c = c.args[1]
	}
	m[c] = true
}

// impliedSyntactically: every conjunct of c is literally on the path condition.
func (p *Path) impliedSyntactically(c *Term) bool {
	if p.pcSet == nil {
		return false
	}
	for c.op == OpBAnd {
		if !p.impliedSyntactically(c.args[0]) {
			return false
		}
		c = c.args[1]
	}
	return p.pcSet[c]
}

func (p *Path) check(c *Term) SatResult {
	if c == TFalse {
		return Unsat
	}
	r, _ := p.ex.solver.Check(c, nil)
	return r
}

// Decide forks on a symbolic condition.
func (p *Path) Decide(c *Term) bool {
	if c == TTrue {
		return true
	}
	if c == TFalse {
		return false
	}
	i := len(p.trace)
	if i < len(p.prefix) {
		d := p.prefix[i]
		p.trace = append(p.trace, d)
		if d.val == 1 {
			p.addPC(c)
			return true
		}
		p.addPC(Not(c))
		return false
	}
	if time.Now().After(p.ex.deadline) {
		panic(pathEnd{"timeout", "harness time limit reached inside a path"})
	}
	rT := p.check(c)
	if rT == Unsat {
		p.trace = append(p.trace, Decision{0, true})
		p.addPC(Not(c))
		return false
	}
	rF := p.check(Not(c))
	if rF == Unsat {
		p.trace = append(p.trace, Decision{1, true})
		p.addPC(c)
		return true
	}
	if rT == Unknown || rF == Unknown {
		p.unknown++
	}
	pend := make([]Decision, i+1)
	copy(pend, p.trace)
	pend[i] = Decision{0, false}
	p.ex.pending = append(p.ex.pending, pend)
	if forkSites != nil {
		forkSites[curForkSite]++
	}
	p.trace = append(p.trace, Decision{1, false})
	p.addPC(c)
	return true
}

// Assume adds c to the path condition without exploring its negation.
// Returns false if c is infeasible here.
func (p *Path) Assume(c *Term) bool {
	if c == TTrue {
		return true
	}
	if c == TFalse {
		return false
	}
	i := len(p.trace)
	if i < len(p.prefix) {
		d := p.prefix[i]
		p.trace = append(p.trace, d)
		if d.val == 0 {
			return false
		}
		p.addPC(c)
		return true
	}
	if p.check(c) == Unsat {
		p.trace = append(p.trace, Decision{0, true})
		return false
	}
	p.trace = append(p.trace, Decision{1, true})
	p.addPC(c)
	return true
}

// MustHold checks that c holds on every continuation of this path. If it can
// fail, report(model) is called with a model and the path continues under c.
// Returns false if c cannot hold at all (path must end).
func (p *Path) MustHold(c *Term, kind, label, msg string, in *Interp) bool {
	if c == TTrue {
		if kind == "assert" {
			p.ex.res.Obligations++
			p.ex.res.Discharged++
			p.ex.res.Trivial++
		}
		return true
	}
	p.ex.res.Obligations++
	i := len(p.trace)
	if i < len(p.prefix) {
		// already decided on an earlier run of this prefix
		d := p.prefix[i]
		p.trace = append(p.trace, d)
		p.ex.res.Obligations--
		if d.val == 0 {
			return false
		}
		if d.val == 1 {
			p.addPC(c)
		}
		return true
	}
	if p.impliedSyntactically(c) {
		p.ex.res.Discharged++
		p.ex.res.Trivial++
		p.trace = append(p.trace, Decision{2, true})
		return true
	}
	neg := Not(c)
	if os.Getenv("VERIF_DUMPQ") != "" {
		fmt.Fprintf(os.Stderr, "QUERY %s %q: %s\n", kind, label, c.str(9))
	}
	var model []Nondet
	r, _ := p.ex.solver.CheckModel(neg, func(eval func([]*Term) []uint64) {
		model = p.extractModel(eval)
	})
	switch r {
	case Unsat:
		p.ex.res.Discharged++
		p.trace = append(p.trace, Decision{2, true})
		// implied; no need to assert
		return true
	case Unknown:
		p.ex.res.Unknown++
		p.ex.res.Inconclusive = append(p.ex.res.Inconclusive, fmt.Sprintf("unknown: %s %s", kind, label))
	case Sat:
		p.ex.report(&Violation{Harness: p.ex.res.Name, Label: label, Kind: kind, Model: model, Msg: msg, Trace: in.stackTrace()})
	}
	// continue under c if possible
	if p.check(c) == Unsat {
		p.trace = append(p.trace, Decision{0, true})
		return false
	}
	p.trace = append(p.trace, Decision{1, true})
	p.addPC(c)
	return true
}

func (p *Path) extractModel(eval func([]*Term) []uint64) []Nondet {
	var ts []*Term
	for _, n := range p.nondets {
		ts = append(ts, n.t)
	}
	vals := eval(ts)
	if vals == nil {
		return nil
	}
	out := make([]Nondet, len(p.nondets))
	var bts []*Term
	for i, n := range p.nondets {
		out[i] = *n
		out[i].Value = vals[i]
		if n.Kind == "bytes" {
			k := int(vals[i])
			if k > n.maxN {
				k = n.maxN
			}
			if k > 70000 {
				k = 70000
			}
			for j := 0; j < k; j++ {
				bts = append(bts, Select(n.arr, C64(uint64(j))))
			}
		}
	}
	bv := eval(bts)
	pos := 0
	for i, n := range p.nondets {
		if n.Kind == "bytes" {
			k := int(vals[i])
			if k > n.maxN {
				k = n.maxN
			}
			if k > 70000 {
				k = 70000
			}
			b := make([]byte, k)
			for j := 0; j < k; j++ {
				if bv != nil {
					b[j] = byte(bv[pos])
				}
				pos++
			}
			out[i].Bytes = b
		}
	}
	return out
}

func (ex *Explorer) report(v *Violation) {
	key := v.Kind + "|" + v.Label
	if ex.seenViol[key] {
		return
	}
	ex.seenViol[key] = true
	ex.res.Violations = append(ex.res.Violations, v)
}

// Concretize returns a concrete value for t, forking over its feasible values.
func (p *Path) Concretize(t *Term, what string) uint64 {
	if c, ok := t.ConstVal(); ok {
		return c
	}
	for n := 0; ; n++ {
		if n > 4096 {
			panic(engineError{"Concretize: too many values for " + what})
		}
		i := len(p.trace)
		if i < len(p.prefix) {
			// replay: prefix entry holds candidate in val>>1, taken in val&1
			d := p.prefix[i]
			p.trace = append(p.trace, d)
			cand := d.val >> 1
			if d.val&1 == 1 {
				p.addPC(Eq(t, Const(t.W(), cand)))
				return cand
			}
			p.addPC(Not(Eq(t, Const(t.W(), cand))))
			continue
		}
		var cand uint64
		r, _ := p.ex.solver.CheckModel(TTrue, func(eval func([]*Term) []uint64) {
			if vs := eval([]*Term{t}); vs != nil {
				cand = vs[0]
			}
		})
		if r != Sat {
			panic(engineError{"Concretize: solver returned " + r.String() + " for " + what})
		}
		eq := Eq(t, Const(t.W(), cand))
		if p.check(Not(eq)) == Unsat {
			p.trace = append(p.trace, Decision{cand<<1 | 1, true})
			p.addPC(eq)
			return cand
		}
		pend := make([]Decision, i+1)
		copy(pend, p.trace)
		pend[i] = Decision{cand << 1, false}
		p.ex.pending = append(p.ex.pending, pend)
		p.trace = append(p.trace, Decision{cand<<1 | 1, false})
		p.addPC(eq)
		return cand
	}
}

// Choose forks n ways (used by select over ready channels).
func (p *Path) Choose(n int) int {
	if n <= 1 {
		return 0
	}
	i := len(p.trace)
	if i < len(p.prefix) {
		d := p.prefix[i]
		p.trace = append(p.trace, d)
		return int(d.val)
	}
	for k := 1; k < n; k++ {
		pend := make([]Decision, i+1)
		copy(pend, p.trace)
		pend[i] = Decision{uint64(k), false}
		p.ex.pending = append(p.ex.pending, pend)
	}
	p.trace = append(p.trace, Decision{0, false})
	return 0
}

// CheckModel is Check with a model callback.
func (s *Solver) CheckModel(extra *Term, cb func(eval func([]*Term) []uint64)) (SatResult, []uint64) {
	if extra == TFalse {
		return Unsat, nil
	}
	s.pendingCB = cb
	defer func() { s.pendingCB = nil }()
	return s.checkCB(extra)
}

func decisionsString(ds []Decision) string {
	var sb strings.Builder
	for _, d := range ds {
		if d.val <= 1 {
			fmt.Fprintf(&sb, "%d", d.val)
		} else {
			fmt.Fprintf(&sb, "[%d]", d.val)
		}
	}
	return sb.String()
}

// Run explores all paths of one harness.
func (ex *Explorer) Run(h *Harness, ld *Loaded) {
	res := ex.res
	ex.pending = [][]Decision{nil}
	for len(ex.pending) > 0 {
		if res.Paths >= ex.maxPaths {
			res.Inconclusive = append(res.Inconclusive, fmt.Sprintf("path limit %d reached with %d pending", ex.maxPaths, len(ex.pending)))
			break
		}
		if time.Now().After(ex.deadline) {
			res.Inconclusive = append(res.Inconclusive, fmt.Sprintf("time limit reached with %d pending after %d paths", len(ex.pending), res.Paths))
			break
		}
		prefix := ex.pending[len(ex.pending)-1]
		ex.pending = ex.pending[:len(ex.pending)-1]
		ex.runPath(h, ld, prefix)
	}
	res.SolverQueries = ex.solver.Queries
	res.SolverTime = ex.solver.Time.Seconds()
	res.SolverMax = ex.solver.MaxTime.Seconds()
	res.Wall = time.Since(ex.start).Seconds()
	for _, c := range res.CoverExpected {
		if res.Covers[c] == 0 {
			res.Inconclusive = append(res.Inconclusive, "cover label never reached (vacuity): "+c)
		}
	}
	if res.Paths > 0 && res.PathsByStatus["ok"] == 0 {
		res.Inconclusive = append(res.Inconclusive, "no path reached the end of the harness (vacuous)")
	}
}

func (ex *Explorer) runPath(h *Harness, ld *Loaded, prefix []Decision) {
	res := ex.res
	p := &Path{ex: ex, prefix: prefix, covers: map[string]bool{}}
	in := newInterp(ld, p, h)
	ex.solver.Push()
	status := "ok"
	msg := ""
	func() {
		defer func() {
			if r := recover(); r != nil {
				switch e := r.(type) {
				case pathEnd:
					status, msg = e.status, e.msg
				case engineError:
					status, msg = "engine-error", e.msg+"\n  at "+strings.Join(in.stackTrace(), "\n  at ")
				default:
					panic(r)
				}
			}
		}()
		in.runHarness()
	}()
	ex.solver.Pop()
	res.Paths++
	res.PathsByStatus[status]++
	res.Steps += int64(in.steps)
	if in.steps > res.MaxPathSteps {
		res.MaxPathSteps = in.steps
	}
	for f, n := range in.funcsSeen {
		res.Funcs[f] = n
	}
	for f, n := range in.stubsUsed {
		res.Stubs[f] += n
	}
	if status != "engine-error" {
		for c := range p.covers {
			res.Covers[c]++
		}
	}
	if p.unknown > 0 {
		res.Inconclusive = append(res.Inconclusive, fmt.Sprintf("%d branch feasibility queries returned unknown (both sides kept)", p.unknown))
	}
	switch status {
	case "timeout":
		res.Inconclusive = append(res.Inconclusive, msg)
	case "engine-error":
		res.Inconclusive = append(res.Inconclusive, "engine: "+msg)
	case "unwind", "steps":
		if in.unwindIsViolation {
			ex.report(&Violation{Harness: res.Name, Label: "nontermination " + msg, Kind: "unwind", Msg: msg, Model: ex.modelNow(p)})
		} else {
			res.Inconclusive = append(res.Inconclusive, "unwinding/step limit: "+msg)
		}
	}
	if len(res.Samples) < 3 && status == "ok" {
		res.Samples = append(res.Samples, fmt.Sprintf("path %d: decisions=%s pc_size=%d steps=%d", res.Paths, decisionsString(p.trace), len(p.pc), in.steps))
	}
	if os.Getenv("VERIF_TRACE") != "" {
		fmt.Fprintf(os.Stderr, "[%s] path %d %s %s steps=%d dec=%s\n", res.Name, res.Paths, status, msg, in.steps, decisionsString(p.trace))
	}
}

func (ex *Explorer) modelNow(p *Path) []Nondet {
	// re-assert pc in a scratch scope to get a model
	ex.solver.Push()
	defer ex.solver.Pop()
	for _, c := range p.pc {
		ex.solver.Assert(c)
	}
	var model []Nondet
	ex.solver.CheckModel(TTrue, func(eval func([]*Term) []uint64) { model = p.extractModel(eval) })
	return model
}

func sortedKeys(m map[string]int) []string {
	ks := make([]string, 0, len(m))
	for k := range m {
		ks = append(ks, k)
	}
	sort.Strings(ks)
	return ks
}
