package main

// Ropes: functional scalar arrays (index BV64 -> BV w). A rope is the content
// function only; lengths live in the slice/array/string that refers to it.
// select is pushed through the rope at read time, so everything handed to the
// solver is quantifier-free.

import "fmt"

type Rope interface {
	sel(i *Term) *Term
	width() int
}

// ropeBase: unconstrained symbolic array.
type ropeBase struct {
	sym *Term
}

func (r *ropeBase) width() int { return r.sym.sort.W }
func (r *ropeBase) sel(i *Term) *Term {
	return Select(r.sym, i)
}

// ropeConst: every element equals v.
type ropeConst struct{ v *Term }

func (r *ropeConst) width() int        { return r.v.W() }
func (r *ropeConst) sel(i *Term) *Term { return r.v }

// ropeLit: concrete bytes (string literals); out of range reads give 0.
type ropeLit struct {
	b []byte
}

func (r *ropeLit) width() int { return 8 }
func (r *ropeLit) sel(i *Term) *Term {
	if c, ok := i.ConstVal(); ok {
		if c < uint64(len(r.b)) {
			return Const(8, uint64(r.b[c]))
		}
		return Const(8, 0)
	}
	// symbolic index into a literal: ite chain (literals are short) over the
	// feasible range
	lo, hi := i.Bounds()
	if hi >= uint64(len(r.b)) {
		hi = uint64(len(r.b)) - 1
		if len(r.b) == 0 {
			return Const(8, 0)
		}
	}
	if hi-lo > 4096 {
		panic(engineError{"symbolic index into long literal"})
	}
	res := Const(8, 0)
	for k := hi + 1; k > lo; k-- {
		res = Ite(Eq(i, C64(k-1)), Const(8, uint64(r.b[k-1])), res)
	}
	return res
}

// ropeOverlay: concrete-index stores over an underlying rope. Mutated in
// place while not frozen.
type ropeOverlay struct {
	under  Rope
	cells  map[uint64]*Term
	frozen bool
}

func (r *ropeOverlay) width() int { return r.under.width() }
func (r *ropeOverlay) sel(i *Term) *Term {
	if c, ok := i.ConstVal(); ok {
		if v, ok := r.cells[c]; ok {
			return v
		}
		return r.under.sel(i)
	}
	// symbolic read over concrete cells: ite over the cells in feasible range
	lo, hi := i.Bounds()
	res := r.under.sel(i)
	n := 0
	// deterministic order: iterate indices ascending if range small, else cells sorted
	if hi-lo <= 8192 {
		for k := lo; ; k++ {
			if v, ok := r.cells[k]; ok {
				res = Ite(Eq(i, C64(k)), v, res)
				n++
			}
			if k == hi {
				break
			}
		}
		return res
	}
	keys := make([]uint64, 0, len(r.cells))
	for k := range r.cells {
		if k >= lo && k <= hi {
			keys = append(keys, k)
		}
	}
	if len(keys) > 8192 {
		panic(engineError{fmt.Sprintf("symbolic read over %d concrete cells", len(keys))})
	}
	sortU64(keys)
	for _, k := range keys {
		res = Ite(Eq(i, C64(k)), r.cells[k], res)
	}
	return res
}

// ropeStore: one symbolic-index store.
type ropeStore struct {
	under Rope
	idx   *Term
	val   *Term
}

func (r *ropeStore) width() int { return r.under.width() }
func (r *ropeStore) sel(i *Term) *Term {
	c := Eq(i, r.idx)
	if c == TTrue {
		return r.val
	}
	if c == TFalse {
		return r.under.sel(i)
	}
	return Ite(c, r.val, r.under.sel(i))
}

// ropeCopy: under with [dst, dst+n) replaced by src[srcOff, srcOff+n).
type ropeCopy struct {
	under       Rope
	dst, n      *Term
	src         Rope
	srcOff      *Term
	selfOverlap bool
}

func (r *ropeCopy) width() int { return r.under.width() }
func (r *ropeCopy) sel(i *Term) *Term {
	// in range: dst <= i && i - dst < n  (n never makes dst+n wrap in practice)
	in := BAnd(ULe(r.dst, i), ULt(Sub(i, r.dst), r.n))
	if in == TFalse {
		return r.under.sel(i)
	}
	sv := r.src.sel(Add(Sub(i, r.dst), r.srcOff))
	if in == TTrue {
		return sv
	}
	return Ite(in, sv, r.under.sel(i))
}

func sortU64(a []uint64) {
	// simple insertion/quick sort
	if len(a) < 2 {
		return
	}
	quickU64(a, 0, len(a)-1)
}

func quickU64(a []uint64, lo, hi int) {
	for lo < hi {
		p := a[(lo+hi)/2]
		i, j := lo, hi
		for i <= j {
			for a[i] < p {
				i++
			}
			for a[j] > p {
				j--
			}
			if i <= j {
				a[i], a[j] = a[j], a[i]
				i++
				j--
			}
		}
		if j-lo < hi-i {
			quickU64(a, lo, j)
			lo = i
		} else {
			quickU64(a, i, hi)
			hi = j
		}
	}
}

// --- mutable handle ---

// SArr is a scalar array value: content rope, element width, length term.
type SArr struct {
	r Rope
	w int
	n *Term // BV64 length
}

func newSArrZero(w int, n *Term) *SArr {
	return &SArr{r: &ropeConst{Const(w, 0)}, w: w, n: n}
}

func (a *SArr) clone() *SArr {
	if o, ok := a.r.(*ropeOverlay); ok {
		o.frozen = true
	}
	return &SArr{r: a.r, w: a.w, n: a.n}
}

func (a *SArr) get(i *Term) *Term { return a.r.sel(i) }

func (a *SArr) set(i, v *Term) {
	if v.W() != a.w {
		panic(engineError{fmt.Sprintf("SArr.set width %d into %d", v.W(), a.w)})
	}
	if c, ok := i.ConstVal(); ok {
		if o, ok := a.r.(*ropeOverlay); ok && !o.frozen {
			o.cells[c] = v
			return
		}
		a.r = &ropeOverlay{under: a.r, cells: map[uint64]*Term{c: v}}
		return
	}
	if o, ok := a.r.(*ropeOverlay); ok {
		o.frozen = true
	}
	a.r = &ropeStore{under: a.r, idx: i, val: v}
}

const copyMaterialize = 32

// copyFrom implements copy(a[dst:dst+n], src[srcOff:srcOff+n]).
func (a *SArr) copyFrom(dst *Term, src Rope, srcOff, n *Term) {
	if c, ok := n.ConstVal(); ok {
		if c == 0 {
			return
		}
		if c <= copyMaterialize {
			// read everything first (memmove semantics)
			vals := make([]*Term, c)
			for k := uint64(0); k < c; k++ {
				vals[k] = src.sel(Add(srcOff, C64(k)))
			}
			for k := uint64(0); k < c; k++ {
				a.set(Add(dst, C64(k)), vals[k])
			}
			return
		}
	}
	if o, ok := a.r.(*ropeOverlay); ok {
		o.frozen = true
	}
	if o, ok := src.(*ropeOverlay); ok {
		o.frozen = true
	}
	a.r = &ropeCopy{under: a.r, dst: dst, n: n, src: src, srcOff: srcOff}
}
