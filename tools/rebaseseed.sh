#!/bin/bash
# usage: rebaseseed.sh <worktree> <seed_dir> -- re-express a seed patch against /repo's current HEAD
WT=$1; SD=$2
cd $WT && git checkout -q -- . && git checkout -q --detach $(git -C /repo rev-parse HEAD) || exit 2
if git apply --check $SD/patch.diff 2>/dev/null; then echo "applies as is"; exit 0; fi
if git apply -3 $SD/patch.diff 2>/dev/null; then
  git reset -q; git diff > $SD/patch.diff.new
  if grep -q '^<<<<<<<\|^+<<<<<<<' $SD/patch.diff.new; then echo "CONFLICT"; git checkout -q -- .; exit 1; fi
  mv $SD/patch.diff.new $SD/patch.diff; git checkout -q -- .; echo "rebased"; exit 0
fi
echo "CANNOT REBASE"; exit 1
