#!/usr/bin/env python3
"""Generate /verif/MANIFEST.json from the table below (single source of truth)."""
import json, subprocess, sys

LEVEL_TEXT_COMMON = ("Bounded symbolic model checking of the real Go code: go/ssa of /repo's current working tree is "
    "re-loaded on every run, the harnessed functions are executed symbolically (inputs, pre-states, clock readings, "
    "adversary bytes are SMT variables), and z3 decides every branch and assertion for all values inside the stated bounds; "
    "counterexamples are replayed natively (go test -overlay) before being reported. ")

CHECKS = {
 # id: (design_ref, text, note, technique)
 "C01": ("DESIGN.md §5 C01",
         "Structural obligations on every reader that completes a handshake (ServerAuth, hidden ServerResponse on the client; ClientAuth, hidden request on the server): success implies each MAC/tag field equals the corresponding duplex squeeze, the certificate verifier returned success before the static DH, the static DH was computed over the VERIFIED leaf's key and absorbed before the final MAC, and nothing beyond the datagram was consumed; the verification policy function accepts iff parse-exact and (skip or authorized-keys or store) and callback; the server publishes a connection only after the client's certificate was judged by its CONFIGURED policy, in both modes; the chain predicate of C04 is discharged here as well; the authorized-key set accepts exactly the keys currently in it over add/remove histories of 3 operations. Also: names match byte for byte (no folding); after a ClientAck the server's ephemeral DH private key depends only on freshly generated randomness (syntactic dependency check).",
         "Duplex, KEM, X25519, SHA3 and the AEAD are recorders with fresh outputs (ideal, collision-free reading; replay=none). Dolev-Yao adversary knowledge is not modelled: the check proves 'accept => MAC over the transcript containing DH(e,s) matched'.",
         "SSA symbolic execution + SMT (z3), transcript-conformance obligations with recording crypto stubs"),
 "C02": ("DESIGN.md §5 C02",
         "Transcript conformance for all seven handshake messages: on success every received field before a MAC was absorbed/decrypted into the duplex in protocol order, byte for byte, every MAC field equals the squeeze that follows, the consumed length equals the message length and lies inside the datagram (truncation from stale receive-buffer bytes is a counterexample), the client flow consumes each datagram exactly; cookie replay re-absorbs the presented KEM key, the recovered secret and the cookie; the two directional keys are squeezed under different labels after a ratchet; the client driver (clientHandshakeLocked) reports success only if the exchange it ran did; the C13 one-step duplex differentials (absorb/encrypt/decrypt/squeeze vs. the specification) are discharged here as well so that no input byte is dropped by the duplex. With a collision-free duplex this is what makes any altered byte change a later MAC. Also: Server.readPacket with an arbitrary stale receive buffer never completes a ClientAuth that arrived short; a session identifier colliding with a live session is drawn again and the live session is never overwritten.",
         "Same recording stubs as C01; KEM ciphertext bytes are bound only through decapsulation (by design of the protocol). Pairwise key distinctness across independent sessions rests on the freshness of ephemeral keys and is not a separate obligation.",
         "SSA symbolic execution + SMT (z3), transcript-conformance obligations with recording crypto stubs"),
 "C03": ("DESIGN.md §5 C03",
         "One-step obligations from an arbitrary session state: a datagram of any length/content is delivered, or moves any state, only after exactly this datagram opened under this direction's key with its 16-byte header as associated data and a fresh counter, which is recorded afterwards; Write/WriteMsg chunking carries every byte once, in order, for every length 0..3*Max+1; ReadMsg/Read hand out queued messages whole and in order; the receive loops' buffers (bodies of the goroutines Serve and the client start, run inline) hold the largest datagram; the receive queue is empty or full; the replay filter's inductive step is discharged here too. Confidentiality is decided as syntactic non-interference: with SNI, certificates and application data as secret symbols and Encrypt/Seal as recorders with fresh outputs, no byte of any datagram written by the real client flow (ClientHello, ClientAck, ClientAuth), the hidden client request, writePQServerAuth, writePQServerResponseHidden, Write or WriteMsg depends on a secret symbol. Concurrent writers are outside this check (see DESIGN.md). Also: no handshake deadline stays armed on an established client socket; the handshake-timeout callback never removes an established session; half-open sessions accept no session traffic; the transport's use of the AEAD (16-byte header as associated data, payload 0/1/200) equals the SANSE reference and opens only genuine tags.",
         "Kravatte-SANSE replaced by a recording AEAD whose Open is nondeterministic (structural reading: which key/AD/bytes gate delivery; the primitive itself is C12). Receive-step harnesses use replay=none because the stub is not realisable natively; write harnesses replay natively.",
         "SSA symbolic execution + SMT (z3), one-step from arbitrary state, AEAD stub"),
 "C04": ("DESIGN.md §5 C04",
         "VerifyLeaf(...) == nil if and only if a branch-free declarative chain predicate holds, with every certificate field symbolic (type bytes over all 256 values, 32-bit times, fingerprints, key/signer ids, names, raw length) for a leaf, an optional presented intermediate and a trust store of up to 2 (quick) / 3 (thorough) certificates in total; VerifyParent's type/fingerprint/signature table; MatchesName / VerifyLeafFormat; a chain built by the real IssueIntermediate and IssueLeafAt (symbolic root window, issuance instant, requested validity, clock) is refused iff the request is invalid, expires at min(requested, parent's expiry) and verifies at every instant of the leaf's window. The single-bit-mutation corollary is not a separate harness (it follows from the iff and from C18's round-trip); selfSign's calendar arithmetic is outside. The issued leaf is serialised and parsed back before verification, all three leaf-issuing entry points are driven under a parent of symbolic type, and PEM bundles (armour faked) yield each certificate independently with its own signed bytes.",
         "Ed25519 idealised: a signature verifies iff its signer id equals the key id (stub of keys.VerifySignature, replay=none; signing idealised consistently in the issuing harness); fingerprints range over 2 symbolic bytes and the store is keyed by its entries' own fingerprints.",
         "SSA symbolic execution + SMT (z3), equivalence with a declarative predicate"),
 "C05": ("DESIGN.md §5 C05",
         "AuthorizeKey grants access iff user lookup, open and parse all succeeded and the (fully symbolic) key equals one of the parsed keys - every failure combination refuses; the real parser (bufio.Scanner, TrimSpace, ParseDHPublicKey, base64) on files assembled from 10 line kinds (incl. 31- and 33-byte payloads) x up to 3 lines grants only well-formed files that list the key; grant fallback: only when enabled, only for exactly (user,key), consumed once, stored fields kept, consumed grants not resurrected by a later grant, over all histories of up to 3 AddAuthGrant operations with symbolic grant fields. checkAuthorization's glue (tube accept, user-auth message) is not covered. Also: the server-configuration loader maps each access switch (EnableAuthgrants, EnableAuthorizedKeys, InsecureSkipVerify, DisableCertificateValidation, AutoSelfSign; absent/false/true) to its own field; two-login histories on one server with the file changing in between; UserDirectoryFor looks up exactly the requested account name.",
         "File system, user lookup and (in the first harness) the parser are nondeterministic stubs; the parser harness uses concrete line texts chosen by the solver.",
         "SSA symbolic execution + SMT (z3), iff-obligations over failure combinations and grant histories"),
 "C06": ("DESIGN.md §5 C06",
         "The principal's real request handler run for 2 (quick) / 3 (thorough) consecutive requests with fully symbolic intents against every combination of approval verdict, target set-up outcome (unreachable / handshake then success / handshake then failure), send failure and target answer: an intent is forwarded only after the callback approved that same intent in that request, field for field; exactly one answer per request; 'confirmed' iff the target confirmed; other-target requests are denied unforwarded; with the target's answer as 0..4 arbitrary bytes through the real ReadConfOrDenial, 'confirmed' reaches the delegate iff the answer is a well-formed confirmation. Target side: exactly one answer, confirmation iff policy accepted and the grant was stored. The forwarded message re-decodes to the approved intent (real codecs). The approval callback (the handshake's additional verify callback) is consulted under every certificate policy; representable intents are never refused half-way by the encoder.",
         "The four message functions are replaced by recorders in the principal/target harnesses (replay=none); the hopclient glue that wires the callback into the handshake is not covered.",
         "SSA symbolic execution + SMT (z3), bounded request sequences with nondeterministic callbacks"),
 "C07": ("DESIGN.md §5 C07",
         "checkCmd from an arbitrary list of up to 2 (quick) / 3 (thorough) grants with symbolic type (all 256 values), start, expiry, command text and principal, symbolic request and clock: succeeds iff a grant of the matching type is effective, unexpired and (commands) textually identical; exactly that grant is consumed and the rest kept in order; startCodex for a grant session goes ahead iff checkCmd accepted; one pass of the session's tube loop dispatches only execution for grant sessions (two recorded known findings: port-forward and authgrant tubes are not gated); the grant map hands a user's grants only to the exact key, once, with the type/start/expiry/command they were issued with, over histories of up to 3 grants; a key whose grants were consumed is no longer accepted by the transport policy. Command text and user name are read whole or refused over a fragmenting reader; no user session is numbered NoSession.",
         "Clock and user lookup are the repo's own thunks set by the harness; tube/muxer methods and exec-message parsing are stubs; go statements are recorded, not run.",
         "SSA symbolic execution + SMT (z3), iff-obligation over arbitrary grant lists"),
 "C08": ("DESIGN.md §5 C08",
         "Safety core only: unwrapFrameNo recovers every true frame number within 2^31 of the acknowledgement number; frameInBounds is interval membership; one receiver step from an arbitrary invariant-satisfying state (ghost stream D(k), <=2 queued fragments, arriving frame anywhere from 2 behind to 5 ahead) extends the buffer by exactly the next in-order frames and reports end-of-stream only when the FIN frame is reached in order; a FIN that overtook data changes no close state in any of six tube states; the sender cuts any write of 0..65537 bytes into consecutively numbered frames concatenating to the buffer; recvAck (progress resets the duplicate-ack counter) and one retransmission-timer tick of the send loop keep the unacknowledged frames; ten consecutive ticks without acknowledgement never collapse the window or drop frames[0]; a decoded frame owns its payload. Also: the priority acknowledgement answering a retransmitted frame carries the receive window's own number; ReadMsgUDP returns only complete messages; reaping a tube leaves its same-numbered twin of the other class mapped.",
         "Eventual delivery ('if the network delivers again every byte becomes readable') is a liveness property over timers and several goroutines and is NOT decided; congestion arithmetic is floating point (havoc, except in the outage harness where it is concrete). The ghost stream is an uninterpreted function (replay=none for that harness).",
         "SSA symbolic execution + SMT (z3), one-step inductive obligations with a ghost stream"),
 "C09": ("DESIGN.md §5 C09",
         "pickTubeID returns the smallest free identifier of the muxer's own parity (out-of-tubes iff none), ignoring the other parity and the other reliability class; the muxer's real receive loop run over two frames (first arbitrary, second valid) delivers each frame only to the tube with its (reliability, identifier), creates a tube iff REQ names a free pair and offers it to Accept once with the announced type; every frame a reliable/unreliable tube emits carries its identifier and reliability class; a closed reliable tube's identifier stays reserved by its opener until the reap timer; unreliable write -> frame -> decode -> receive -> read is the identity for lengths {0,1,100,32768} and a refusal for {32769,...,70000}; CreateReliableTube/CreateUnreliableTube in any order of 3 give distinct identifiers within each class with the role's parity. The receive loop also runs with a full accept queue (a created tube is offered or waited for, never dropped); queued frames own their bytes; reaping leaves the twin of the other class mapped.",
         "'A later tube that reuses the identifier never sees the old tube's packets' is decided only as the reservation step above; the 4*RTT timer racing the network is schedule/timing and outside. Tube receive functions are recorders in the loop harness (replay=none).",
         "SSA symbolic execution + SMT (z3), one loop iteration / one step from constructed states"),
 "C10": ("DESIGN.md §5 C10",
         "Every datagram of length 0..65535 with arbitrary bytes (including a live session's public id) through the server's and client's session-message handler from an arbitrary session state, and every datagram of length 0..1700 with a fully symbolic type byte through Server.readPacket in discoverable and hidden mode with 1-2 certificates, a pending handshake of another address, another client's half-open session and an established session: no panic, returns, other peers' handshakes and unauthenticated sessions untouched; the real GetCertificate callback installed by NewHopServer never panics on any name of 0..3 bytes and any type (the glob itself is C20). Also: ParseKEMPublicKeyFromBytes on 800 symbolic bytes through circl's real ML-KEM-512 unpacking returns an error or a usable key; the duplex never panics on any operand length (0 included).",
         "AEAD stubbed by a nondeterministic Open; panics replay natively against the real build.",
         "SSA symbolic execution + SMT (z3), panic-freedom + non-interference, one step from arbitrary state"),
 "C11": ("DESIGN.md §5 C11",
         "Panic-freedom and bounded allocation for fromBytes on the muxer's full 65535-byte symbolic buffer, recvAck with every 32-bit acknowledgement from an invariant-satisfying sender with <=2 (quick) / <=3 (thorough) unacked frames, and every application decoder (exec, window size, userauth, authgrant messages, proxy responses) on symbolic streams with EOF at several positions; a certificate encoding cut at each of 28 positions is refused; the muxer's real receive loop survives any frame, keeps serving the next one and is never wedged by a blocking channel send in a tube's receive function; port-forward decoders. 'Can still be stopped cleanly' (C16) is not covered. Also: the client-side exec status reader (bounded allocation), the muxer's receive buffer holds the largest transport message, pickTubeID terminates when every identifier of its parity is taken (termination required).",
         "Length-like bytes of multi-field messages are picked from a grid (stated per harness) so that offsets stay concrete; all other bytes symbolic. Tube reads are replaced by a finite symbolic stream.",
         "SSA symbolic execution + SMT (z3), panic/allocation obligations on symbolic input buffers"),
 "C12": ("DESIGN.md §5 C12",
         "Over an UNINTERPRETED 6-round permutation (25 uninterpreted functions of the 25 lanes): Seal then Open is the identity for two-message sessions on the boundary grid |P| in {0,1,199,200,201,400} x |A| in {0,16,200,201}; a message opens only if all 32 tag bytes equal the tag of its plaintext (re-seal obligation on arbitrary bytes); the mask derivation hands key||0x01||0* to the permutation for every key length 1..199 and refuses >= 200; in-place Seal/Open (dst overlapping the input at offset 0 or behind a header) equals out-of-place use and leaves the AD alone; the one-shot Kravatte function equals a specification transcription for input lengths {0,1,199,200,201,399,400,401,600} x output lengths {1,32,200,201,400}; Seal/Open on one instance for 2 (quick) / 3 (thorough) consecutive messages starting from session bit 0 or 1 equal a SANSE reference that keeps the history as a list of strings (ciphertext, tag, session bit, and the reference's output opens), lengths {0,1,200}^2 per message. Streaming Kra/Vatte in parts, and FlagInit after an unfinished input, equal the one-shot specification.",
         "The assembly permutation is outside (uninterpreted): 'equals the published XKCP outputs' end to end is not claimed, nor that different ciphertexts give different tags (the primitive's strength). Lengths off the grid are outside. replay=none (uninterpreted functions have no native meaning); cvc5 decides the UF-heavy harnesses.",
         "SSA symbolic execution + SMT (z3/cvc5, QF_UFBV), differential against a specification transcription over an uninterpreted permutation"),
 "C13": ("DESIGN.md §5 C13",
         "One call of Absorb / Squeeze / SqueezeKey / Ratchet / Encrypt / Decrypt from an ARBITRARY state (phase, mode, 1600 symbolic state bits) and Initialize(key,id,counter) equal a transcription of the Cyclist specification (outputs and post-state), operand lengths {0,1,135,136,137,271,272,273} across the 136-byte rate, over a shared uninterpreted 12-round permutation; wrong-mode calls panic; Encrypt on one object and Decrypt on another in the same state leave both in the same state with equal next tags. One step from an arbitrary state covers operation sequences of any length. The generic permutation (cyclist/keccakf.go, selected by loading the package under the build tag appengine) executed on 25 symbolic lanes equals a transcription of Keccak-p[1600,12] from FIPS 202 (LFSR round constants, walk-generated rotation offsets) on all 1600 bits. Initialize / InitializeEmpty give the specification's state from a fresh or a used object (arbitrary phase, mode, state), nil and empty keys alike.",
         "The amd64 assembly permutation is not encoded: 'instantiated with 12-round Keccak-p[1600]' is decided for the generic Go permutation only (syntactic equality after xor AC-normalisation on the clean tree; cvc5 produces the model on a mutated one, replayed natively with -tags appengine). Lengths off the grid are outside. replay=none for the duplex harnesses; cvc5.",
         "SSA symbolic execution + SMT (cvc5, QF_UFBV), one-step differential against a specification transcription"),
 "C14": ("DESIGN.md §5 C14",
         "One-step inductive argument (arbitrary window state satisfying a stated representation invariant, one Check/Mark, invariant and Check<=>set-spec afterwards) covers histories of any length; a k<=3 (quick) / k<=4 (thorough) BMC from the zero state guards the invariant against vacuity; the counter handed to the filter is the 64-bit big-endian value of the header field (readCounter/writeCounter). Counters >= 2^63 are outside the claim, as in the property. The session receive step shows that only authenticated packets' counters ever reach the filter's memory.",
         "Trusted: go/ssa, the engine's interpreter, z3; the invariant is stated in harness/transport/c14_replay.go. Mark's clearing loop is unrolled completely (<= 8 iterations, unwinding checked).",
         "SSA symbolic execution + SMT (z3), inductive invariant + BMC"),
 "C15": ("DESIGN.md §5 C15",
         "From an arbitrary session state and for a datagram of any length/content from any source address: the stored peer address changes only on a path where the AEAD open of that datagram succeeded (hence its counter passed the replay filter), the new value is the datagram's source, and after a genuine transport packet the address equals its source whether the receive queue is empty or full; send() uses the address read under the session lock; the replay filter's inductive step is discharged here too (a replayed packet cannot redirect). Server and client handlers. Half-open sessions (created by the server's own code, no keys yet) are never redirected; the AEAD as the transport uses it equals the SANSE reference over the whole header and rejects forged tags for empty payloads too.",
         "AEAD stubbed (recording, nondeterministic Open); replay=none. Interleavings of send with a concurrent update are outside.",
         "SSA symbolic execution + SMT (z3), one step from arbitrary state"),
 "C18": ("DESIGN.md §5 C18",
         "decode(encode(v)) == v field by field, with exact consumption, for tube frames, initiate frames, flag bytes, length-prefixed strings, certificate names / id chunks / certificates, intents and grant messages, denials, proxy responses, exec requests, window sizes, userauth requests and port-forward requests (TCP/UDP/unix, IPv4/IPv6); lengths straddle every length-field boundary (255/256, 252/253, 65535/65536); decode-encode-decode for certificates. Also: target info through real net/url (user bytes of every value), the handshake's certificate vectors across 255/256, PEM bundles, exec status, and ReadString over fragmenting readers.",
         "Multi-field messages take their length fields from stated grids; SHA3 (certificate fingerprint) replaced by fresh bytes; userauth tube I/O replaced by a byte stream (replay=none there).",
         "SSA symbolic execution + SMT (z3), round-trip obligations with symbolic fields"),
 "C19": ("DESIGN.md §5 C19",
         "ClientHello of any length/content leaves the handshake and session tables unchanged and triggers at most one datagram, to the source; a ClientAck is accepted only if the cookie field of THIS datagram opened under the server's current cookie key with associated data = hash over (KEM key of this datagram, source IP of length 4 or 16, source port); a hidden-mode server with 1-2 certificates emits a datagram only for a hidden request of exact length whose KEM ciphertext was decapsulated with its own key, whose tag and final MAC matched, whose certificate verified and whose authenticated timestamp lies within the 5 s window of the (symbolic) clock - every other message type gets nothing. Also: Server.init draws every cookie-key byte from the random source in every certificate configuration; NewHopServer runs the transport server hidden exactly when hidden virtual hosts are configured; the freshness window is checked against the literal 5 s.",
         "AEAD/SHA3/KEM/duplex are recorders (replay=none). Replays inside the 5 s window are accepted by design and by the property's wording.",
         "SSA symbolic execution + SMT (z3), one datagram from arbitrary server state with recording crypto stubs"),
 "C20": ("DESIGN.md §5 C20",
         "Glob(pattern,input) is total (unwinding bound = termination) and equals a branch-free dynamic-programming glob matcher for all patterns and inputs of length <= 5 (quick) / <= 7 (thorough) over all 256 byte values; MatchHost applies exactly the matching host blocks in order; VirtualHosts.Match returns the first match. Also: NewVirtualHosts yields exactly the configured blocks in order plus the fallback; the GetCertificate callback installed by NewHopServer presents the first virtual host matching the requested label for every name type; mergeClientFlagsAndConfig applies the matching host blocks of the default file and of the -C file.",
         "Longer strings are outside the claim. MatchHost/VirtualHosts use concrete pattern sets (matching / non-matching / absent) with the real Glob.",
         "SSA symbolic execution + SMT (z3), differential against declarative matcher"),
}

NOT_APPLICABLE = {
 "C16": "quantifies over goroutine interleavings/timers of >=5 goroutines per tube; the SSA symbolic executor has no scheduler model, so solver-based checking of the real code cannot reach it (DESIGN.md §6)",
 "C17": "data-race freedom and release of blocked calls under all schedules of 2-6 goroutines; no scheduler/race model in the symbolic executor (DESIGN.md §6)",
}

PENDING_REASON = "harness not built yet in this session (planned, see DESIGN.md §5); not claimed until its check runs clean"

def main():
    props = [json.loads(l)["id"] for l in open("/verif/properties.jsonl")]
    checks = []
    na = []
    for p in props:
        if p in CHECKS:
            ref, text, note, tech = CHECKS[p]
            checks.append({
                "property_id": p,
                "quick_cmd": f"/verif/check.sh {p} quick",
                "thorough_cmd": f"/verif/check.sh {p} thorough",
                "evidence_file": f"/verif/evidence/{p}.json",
                "replay_cmd_template": "/verif/bin/gosym replay {path}",
                "engine": "gosym",
                "level_claimed": {"category": "model_checking", "text": LEVEL_TEXT_COMMON + text, "design_ref": ref},
                "level_note": note,
                "technique": tech,
            })
        elif p in NOT_APPLICABLE:
            na.append({"property_id": p, "reason": NOT_APPLICABLE[p]})
        else:
            na.append({"property_id": p, "reason": PENDING_REASON})
    m = {
        "version": 1,
        "setup_cmd": "cd /verif/engine && GOFLAGS=-mod=mod GOPROXY=off GOTOOLCHAIN=auto go build -o /verif/bin/gosym .",
        "hooks": {
            "guard": "verif",
            "enable": "none needed: harnesses are injected as go/packages overlay files (zz_verif_*.go), nothing is written under /repo",
            "baseline_off_cmd": "cd /repo && GOFLAGS=-mod=mod GOPROXY=off go test -vet=off -count=1 -timeout 25m ./...",
            "source_commits": [],
            "add_only": True,
        },
        "engines": [{
            "name": "gosym", "path": "/verif/engine",
            "serves_properties": sorted(CHECKS.keys()),
            "kind_free_text": "own SSA-level symbolic executor for Go (go/packages + go/ssa front end, path exploration by re-execution, ropes for byte buffers, z3 -in incremental back end, native counterexample replay)",
        }],
        "checks": checks,
        "not_applicable": na,
        "notes": "Exit codes: 0 all obligations unsat and every cover label reached; 1 replay-confirmed violation (VIOLATION line); 2 inconclusive (unknown/unwinding/engine limitation). Known findings: /verif/KNOWN_FINDINGS.txt.",
    }
    json.dump(m, open("/verif/MANIFEST.json", "w"), indent=1)
    print("wrote MANIFEST.json:", len(checks), "checks,", len(na), "not_applicable")

main()
