#!/usr/bin/env python3
"""Generate /verif/MANIFEST.json from the table below (single source of truth)."""
import json, subprocess, sys

LEVEL_TEXT_COMMON = ("Bounded symbolic model checking of the real Go code: go/ssa of /repo's current working tree is "
    "re-loaded on every run, the harnessed functions are executed symbolically (inputs, pre-states, clock readings, "
    "adversary bytes are SMT variables), and z3 decides every branch and assertion for all values inside the stated bounds; "
    "counterexamples are replayed natively (go test -overlay) before being reported. ")

CHECKS = {
 # id: (design_ref, text, note, technique)
 "C14": ("DESIGN.md §5 C14",
         "One-step inductive argument (arbitrary window state satisfying a stated representation invariant, one Check/Mark, invariant and Check<=>set-spec afterwards) covers histories of any length; a k<=3 (quick) / k<=4 (thorough) BMC from the zero state guards the invariant against vacuity. Counters >= 2^63 are outside the claim, as in the property.",
         "Trusted: go/ssa, the engine's interpreter, z3; the invariant is stated in harness/transport/c14_replay.go. Mark's clearing loop is unrolled completely (<= 8 iterations, unwinding checked).",
         "SSA symbolic execution + SMT (z3), inductive invariant + BMC"),
}

NOT_APPLICABLE = {
 "C16": "quantifies over goroutine interleavings/timers of >=5 goroutines per tube; the SSA symbolic executor has no scheduler model, so solver-based checking of the real code cannot reach it (DESIGN.md §6)",
 "C17": "data-race freedom and release of blocked calls under all schedules of 2-6 goroutines; no scheduler/race model in the symbolic executor (DESIGN.md §6)",
}

PENDING_REASON = "harness not built yet in this session (planned, see DESIGN.md §5); not claimed until its check runs clean"

def main():
    props = [json.loads(l)["id"] for l in open("/verif/properties.jsonl")]
    checks = []
    na = []
    for p in props:
        if p in CHECKS:
            ref, text, note, tech = CHECKS[p]
            checks.append({
                "property_id": p,
                "quick_cmd": f"/verif/check.sh {p} quick",
                "thorough_cmd": f"/verif/check.sh {p} thorough",
                "evidence_file": f"/verif/evidence/{p}.json",
                "replay_cmd_template": "/verif/bin/gosym replay {path}",
                "engine": "gosym",
                "level_claimed": {"category": "model_checking", "text": LEVEL_TEXT_COMMON + text, "design_ref": ref},
                "level_note": note,
                "technique": tech,
            })
        elif p in NOT_APPLICABLE:
            na.append({"property_id": p, "reason": NOT_APPLICABLE[p]})
        else:
            na.append({"property_id": p, "reason": PENDING_REASON})
    m = {
        "version": 1,
        "setup_cmd": "cd /verif/engine && GOFLAGS=-mod=mod GOPROXY=off GOTOOLCHAIN=auto go build -o /verif/bin/gosym .",
        "hooks": {
            "guard": "verif",
            "enable": "none needed: harnesses are injected as go/packages overlay files (zz_verif_*.go), nothing is written under /repo",
            "baseline_off_cmd": "cd /repo && GOFLAGS=-mod=mod GOPROXY=off go test -vet=off -count=1 -timeout 25m ./...",
            "source_commits": [],
            "add_only": True,
        },
        "engines": [{
            "name": "gosym", "path": "/verif/engine",
            "serves_properties": sorted(CHECKS.keys()),
            "kind_free_text": "own SSA-level symbolic executor for Go (go/packages + go/ssa front end, path exploration by re-execution, ropes for byte buffers, z3 -in incremental back end, native counterexample replay)",
        }],
        "checks": checks,
        "not_applicable": na,
        "notes": "Exit codes: 0 all obligations unsat and every cover label reached; 1 replay-confirmed violation (VIOLATION line); 2 inconclusive (unknown/unwinding/engine limitation). Known findings: /verif/KNOWN_FINDINGS.txt.",
    }
    json.dump(m, open("/verif/MANIFEST.json", "w"), indent=1)
    print("wrote MANIFEST.json:", len(checks), "checks,", len(na), "not_applicable")

main()
