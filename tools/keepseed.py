#!/usr/bin/env python3
"""keepseed.py <seed_dir> <id> <confirmed-text> <detected-by-text>  -> /verif/seeded/<id>/"""
import json, os, shutil, sys
sd, sid, confirmed, detected = sys.argv[1:5]
dst = f"/verif/seeded/{sid}"
os.makedirs(dst, exist_ok=True)
shutil.copy(f"{sd}/patch.diff", f"{dst}/patch.diff")
shutil.copy(f"{sd}/demo_test.go.txt", f"{dst}/demo_test.go.txt")
m = json.load(open(f"{sd}/meta.json"))
out = {
  "id": sid,
  "breaks_property": m.get("property"),
  "what_changed": m.get("summary"),
  "needs_to_manifest": m.get("needs"),
  "files": m.get("files"),
  "demo_cmd": m.get("demo_cmd"),
  "author_verified": m.get("verified"),
  "confirmed_by_me": confirmed,
  "checks_run_against_it": detected,
}
json.dump(out, open(f"{dst}/meta.json", "w"), indent=1)
print("kept", dst)
