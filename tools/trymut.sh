#!/bin/bash
# usage: trymut.sh <worktree> <seed_dir> <PROP> [only]  -- run a check against a mutated scratch worktree
WT=$1; SD=$2; PROP=$3; ONLY=${4:-}
cd $WT && git checkout -q -- . && git apply $SD/patch.diff || exit 2
cd /verif
args="check $PROP --no-evidence"
[ -n "$ONLY" ] && args="$args --only $ONLY"
VERIF_REPO=$WT VERIF_TIMEOUT=${VERIF_TIMEOUT:-200} timeout 900 ./bin/gosym $args 2>&1 | grep -E "VIOLATION|KNOWN|INCONCL|exit" | cut -c1-300
cd $WT && git checkout -q -- .
