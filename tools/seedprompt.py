#!/usr/bin/env python3
import json, sys
pid = sys.argv[1]; wt = sys.argv[2]; n = sys.argv[3] if len(sys.argv) > 3 else "2"
prop = None
for l in open('/verif/properties.jsonl'):
    r = json.loads(l)
    if r['id'] == pid: prop = r
print(f"""You are helping to evaluate a verification framework by writing realistic *bug injections* for a Go code base (hop-go: an SSH-alternative remote access protocol). You work ONLY inside your own scratch git worktree at {wt} (a checkout of the repository). Do not touch /repo or /verif, do not read anything under /verif.

The sandbox is offline. For every go command use:  export GOFLAGS=-mod=mod GOPROXY=off GOTOOLCHAIN=auto   (run from inside {wt}).

Here is a semantic property that the code base is supposed to satisfy:

{json.dumps(prop, indent=1)}

Your task: produce {n} DIFFERENT source changes ("mutations") to the non-test Go code in {wt}, each of which
  1. breaks the property above (makes the statement false for some input / history / configuration),
  2. still compiles (go build ./... and go vet-free is not required) and still passes the EXISTING test suite of every package it touches (run: go test -vet=off -count=1 ./<pkg>/... for the touched packages; transport and tubes tests take ~15 s each; if a test is flaky on the unmodified tree, note it),
  3. is REALISTIC: something a maintainer could plausibly commit by mistake (an off-by-one, a dropped or inverted check, a wrong field/offset/width, a refactoring slip, two sites that each look fine alone), NOT a blatant sabotage, and
  4. needs something SPECIFIC to manifest: a particular unusual input, boundary length, multi-step sequence, particular state, or two cooperating sites - not something ordinary use would expose at once.
Prefer small diffs (1-10 changed lines) in the files listed under "anchors", and make the {n} mutations hit different functions/mechanisms.

For each mutation k = 1..{n} create the directory {wt}/_seed/{pid}_k/ containing:
  - patch.diff : output of `git diff` for the mutation only (must apply with `git apply` on a clean checkout of HEAD),
  - demo_test.go.txt : a Go test (ordinary `package xxx` in-package test, state in its first line as a comment the path where it must be copied, e.g. `// copy to: transport/zz_demo_test.go`) that FAILS with the mutation applied and PASSES on the clean tree. It may use unexported identifiers of the package. Keep it deterministic and fast (< 20 s).
  - meta.json : {{"property": "{pid}", "summary": "<one sentence: what was changed>", "needs": "<what specific input/sequence/state makes it manifest>", "files": [...], "demo_cmd": "<exact go test command>", "verified": "<what you ran and observed: existing tests pass with mutation; demo fails with mutation, passes without>"}}
You MUST actually verify all of this yourself by running the commands (apply mutation -> run existing package tests -> run demo (fails) -> revert -> run demo (passes)). When you are done, leave the worktree's tracked files clean (git checkout -- . ; remove the demo test files you copied in) so that only the untracked _seed/ directory remains. Do not commit anything.

Finish with a short plain-text report listing the mutations and confirming the verification you did.""")
