#!/bin/bash
# usage: tryall.sh <worktree> <PROP> <seed ids...>
WT=$1; PROP=$2; shift 2
for sd in "$@"; do
  d=$WT/_seed/$sd
  echo "=== $sd: $(python3 -c "import json;print(json.load(open('$d/meta.json'))['summary'][:140])")"
  /verif/tools/rebaseseed.sh $WT $d | tail -1
  /verif/tools/verifyseed.sh $WT $d 2>&1 | grep RESULT
  VERIF_TIMEOUT=${VERIF_TIMEOUT:-400} /verif/tools/trymut.sh $WT $d $PROP 2>&1 | cut -c1-260
done
