#!/bin/bash
# usage: verifyseed.sh <worktree> <seed_dir>   -- confirm a seeded mutation independently
# 1. patch applies  2. touched packages' existing tests pass with it  3. demo fails with it  4. demo passes without it
set -u
WT=$1; SD=$2
export GOFLAGS=-mod=mod GOPROXY=off GOTOOLCHAIN=auto
cd $WT || exit 2
git checkout -q -- . ; git clean -fdq -e _seed >/dev/null
git apply --check $SD/patch.diff || { echo "PATCH DOES NOT APPLY"; exit 1; }
dest=$(head -1 $SD/demo_test.go.txt | sed -n 's|.*copy to: *||p' | tr -d ' \r')
[ -n "$dest" ] || { echo "no dest in demo"; exit 1; }
pkgs=$(grep '^+++ b/' $SD/patch.diff | sed 's|+++ b/||' | xargs -n1 dirname | sort -u | sed 's|^|./|')
demopkg=./$(dirname $dest)
git apply $SD/patch.diff
go build ./... || { echo "BUILD FAILS WITH MUTATION"; git checkout -q -- .; exit 1; }
echo "== existing tests with mutation: $pkgs"
ok=1
for p in $pkgs; do
  for try in 1 2 3; do
    out=$(go test -vet=off -count=1 $p 2>&1); rc=$?
    if [ $rc -eq 0 ]; then break; fi
    if echo "$out" | grep -q "address already in use"; then sleep 15; continue; fi
    break
  done
  echo "$out" | tail -2
  [ $rc -eq 0 ] || ok=0
done
cp $SD/demo_test.go.txt $dest
echo "== demo with mutation (must FAIL)"
go test -vet=off -count=1 -run 'Demo|C[0-9][0-9]' $demopkg > /tmp/demo_mut.$$ 2>&1; rc_mut=$?
tail -4 /tmp/demo_mut.$$
git checkout -q -- .
echo "== demo without mutation (must PASS)"
go test -vet=off -count=1 -run 'Demo|C[0-9][0-9]' $demopkg > /tmp/demo_clean.$$ 2>&1; rc_clean=$?
tail -3 /tmp/demo_clean.$$
rm -f $dest /tmp/demo_mut.$$ /tmp/demo_clean.$$
echo "RESULT existing_tests_ok=$ok demo_fails_with_mutation=$([ $rc_mut -ne 0 ] && echo 1 || echo 0) demo_passes_clean=$([ $rc_clean -eq 0 ] && echo 1 || echo 0)"
