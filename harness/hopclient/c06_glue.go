package hopclient

import (
	"errors"
	"io"
	"net"

	"hop.computer/hop/authgrants"
	"hop.computer/hop/certs"
	"hop.computer/hop/config"
	"hop.computer/hop/core"
	"hop.computer/hop/tubes"
)

// C06 — the principal's client glue: whatever approver is registered on the
// HopClient WHEN A REQUEST ARRIVES is the one the authgrants instance consults,
// and the instance is never started with a nil callback (whose default inside
// authgrants is accept-all).

var c06g struct {
	registerLate bool
	swap         bool
	calls        [2]int
	got, sent    authgrants.Intent
	ciNil        bool
	result       error
	client       *HopClient
	ran          bool
}

var c06Refusal = errors.New("the user said no")

func c06Approver(i int) authgrants.CheckIntentCallback {
	return func(in authgrants.Intent, cert *certs.Certificate) error {
		c06g.calls[i]++
		c06g.got = in
		if i == 1 {
			return c06Refusal
		}
		return nil
	}
}

func c06ReadProxyID(r io.Reader) (byte, error) { return 7, nil }
func c06RelClose(r *tubes.Reliable) error      { return nil }

// the authgrants instance, reduced to what matters here: two requests arrive
// on the delegate connection; between them the user may swap the approver
func c06StartPrincipalInstance(dc net.Conn, ci authgrants.CheckIntentCallback, su func(core.URL, authgrants.AdditionalVerifyCallback) (net.Conn, error)) error {
	c06g.ran = true
	if ci == nil {
		c06g.ciNil = true
		return nil
	}
	c := c06g.client
	if c06g.registerLate {
		// the approver is registered only now: after the delegate connection
		// was opened, before its first request
		verifAssume(c.SetCheckIntentCallback(c06Approver(1)) == nil)
	}
	in := authgrants.Intent{TargetUsername: verifString("user", 1), TargetPort: verifU16("port")}
	c06g.sent = in
	c06g.result = ci(in, &certs.Certificate{})
	return nil
}

//verif:prop C06
//verif:replay none
//verif:stub hop.computer/hop/authgrants.ReadUnreliableProxyID = c06ReadProxyID
//verif:stub hop.computer/hop/authgrants.StartPrincipalInstance = c06StartPrincipalInstance
//verif:stub (*hop.computer/hop/tubes.Reliable).Close = c06RelClose
//verif:bounds the real HopClient.newPrincipalInstanceSetup + SetCheckIntentCallback of a principal-enabled client; an accepting approver registered before the delegate connection opens or none yet; a refusing approver registered (or swapped in) after the connection opened and before the request; the authgrants instance is replaced by one call of the callback it was given, with a symbolic intent (user byte, port)
//verif:cover late;swapped;early
func VH_C06_the_approver_registered_when_a_request_arrives_decides_it() {
	c := &HopClient{hostconfig: &config.HostConfig{IsPrincipal: true}}
	c06g.client = c
	early := verifBool("approver-registered-before-connection")
	if early {
		verifAssume(c.SetCheckIntentCallback(c06Approver(0)) == nil)
	}
	c06g.registerLate = verifBool("approver-registered-after-connection")
	verifAssume(early || c06g.registerLate) // a client with no approver at all is outside: it never answers
	pq := newPTProxyTubeQueue()
	pq.tubes[7] = &tubes.Unreliable{}
	c.newPrincipalInstanceSetup(&tubes.Reliable{}, pq)
	verifAssert(c06g.ran, "harness: the instance was started")
	verifAssert(!c06g.ciNil, "C06: the principal instance is never started with a nil approval callback (whose default is accept-all)")
	if c06g.ciNil {
		return
	}
	switch {
	case c06g.registerLate && early:
		verifCover("swapped")
	case c06g.registerLate:
		verifCover("late")
	default:
		verifCover("early")
	}
	verifAssert(verifAnd(verifStrEq(c06g.got.TargetUsername, c06g.sent.TargetUsername), c06g.got.TargetPort == c06g.sent.TargetPort), "C06: the approver sees the very intent that was requested")
	if c06g.registerLate {
		verifAssert(c06g.calls[1] == 1 && c06g.calls[0] == 0, "C06: the approver registered when the request arrives is consulted, exactly once")
		verifAssert(c06g.result == c06Refusal, "C06: its refusal is what the instance sees")
	} else {
		verifAssert(c06g.calls[0] == 1, "C06: the registered approver is consulted exactly once per request")
		verifAssert(c06g.result == nil, "C06: its approval is what the instance sees")
	}
}
