package hopclient

import (
	"io"
	"net"
	"time"

	"github.com/sirupsen/logrus"

	"hop.computer/hop/common"
	"hop.computer/hop/config"
	"hop.computer/hop/core"
	"hop.computer/hop/transport"
	"hop.computer/hop/tubes"
)

// C09 — "concurrently created tubes get distinct identifiers" holds between the
// two ENDS of a session only if their muxers were created with opposite roles
// (newMuxer: "one must be created with isServer set to true and the other
// false"): each end picks the smallest free identifier of its own parity. This
// harness builds the two muxers exactly the way the hop client (connectLocked)
// and the hop server (newSession: tubes.Server) build them and lets both ends
// open their first tube before either has seen the other's request.

func c09StartUnderlying(c *HopClient, address string, a core.Authenticator) error {
	c.TransportConn = &transport.Client{}
	return nil
}

func c09NoAddr(c *transport.Client) net.Addr { return nil }

type c09Conn struct{}

func (c *c09Conn) ReadMsg(b []byte) (int, error)      { return 0, io.EOF }
func (c *c09Conn) WriteMsg(b []byte) error            { return nil }
func (c *c09Conn) Read(p []byte) (int, error)         { return 0, io.EOF }
func (c *c09Conn) Write(p []byte) (int, error)        { return len(p), nil }
func (c *c09Conn) Close() error                       { return nil }
func (c *c09Conn) LocalAddr() net.Addr                { return nil }
func (c *c09Conn) RemoteAddr() net.Addr               { return nil }
func (c *c09Conn) SetDeadline(t time.Time) error      { return nil }
func (c *c09Conn) SetReadDeadline(t time.Time) error  { return nil }
func (c *c09Conn) SetWriteDeadline(t time.Time) error { return nil }

//verif:prop C09
//verif:replay none
//verif:stub (*hop.computer/hop/hopclient.HopClient).startUnderlying = c09StartUnderlying
//verif:stub (*hop.computer/hop/transport.Client).LocalAddr = c09NoAddr
//verif:stub (*hop.computer/hop/transport.Client).RemoteAddr = c09NoAddr
//verif:bounds the client's muxer as built by the real HopClient.connectLocked (transport set-up stubbed), the server's muxer as hopserver.newSession builds it; each end creates one reliable or one unreliable tube of the same class before any frame is exchanged
//verif:cover both-created
func VH_C09_both_ends_of_a_session_pick_identifiers_of_opposite_parity() {
	c := &HopClient{hostconfig: &config.HostConfig{}}
	err := c.connectLocked("host.example:77", nil)
	verifAssert(err == nil && c.TubeMuxer != nil, "C09: the client builds its muxer when it connects")
	if err != nil || c.TubeMuxer == nil {
		return
	}
	server := tubes.Server(&c09Conn{}, &tubes.Config{Log: logrus.WithField("muxer", "server")})
	var a, b tubes.Tube
	var e1, e2 error
	if verifBool("reliable") {
		a, e1 = c.TubeMuxer.CreateReliableTube(common.ExecTube)
		b, e2 = server.CreateReliableTube(common.ExecTube)
	} else {
		a, e1 = c.TubeMuxer.CreateUnreliableTube(common.ExecTube)
		b, e2 = server.CreateUnreliableTube(common.ExecTube)
	}
	verifAssert(e1 == nil && e2 == nil, "C09: both ends can open a tube")
	if e1 != nil || e2 != nil {
		return
	}
	verifCover("both-created")
	verifAssert(a.GetID() != b.GetID(), "C09: tubes the two ends of a session create concurrently get distinct identifiers (the ends use opposite identifier parities)")
}
