package hopclient

import (
	"io"
	"net"
	"time"

	"github.com/sirupsen/logrus"

	"hop.computer/hop/certs"
	"hop.computer/hop/common"
	"hop.computer/hop/config"
	"hop.computer/hop/core"
	"hop.computer/hop/keys"
	"hop.computer/hop/flags"
	"hop.computer/hop/portforwarding"
	"hop.computer/hop/transport"
	"hop.computer/hop/tubes"
)

// C09 — "concurrently created tubes get distinct identifiers" holds between the
// two ENDS of a session only if their muxers were created with opposite roles
// (newMuxer: "one must be created with isServer set to true and the other
// false"): each end picks the smallest free identifier of its own parity. This
// harness builds the two muxers exactly the way the hop client (connectLocked)
// and the hop server (newSession: tubes.Server) build them and lets both ends
// open their first tube before either has seen the other's request.

func c09StartUnderlying(c *HopClient, address string, a core.Authenticator) error {
	c.TransportConn = &transport.Client{}
	return nil
}

func c09NoAddr(c *transport.Client) net.Addr { return nil }

type c09Conn struct{}

func (c *c09Conn) ReadMsg(b []byte) (int, error)      { return 0, io.EOF }
func (c *c09Conn) WriteMsg(b []byte) error            { return nil }
func (c *c09Conn) Read(p []byte) (int, error)         { return 0, io.EOF }
func (c *c09Conn) Write(p []byte) (int, error)        { return len(p), nil }
func (c *c09Conn) Close() error                       { return nil }
func (c *c09Conn) LocalAddr() net.Addr                { return nil }
func (c *c09Conn) RemoteAddr() net.Addr               { return nil }
func (c *c09Conn) SetDeadline(t time.Time) error      { return nil }
func (c *c09Conn) SetReadDeadline(t time.Time) error  { return nil }
func (c *c09Conn) SetWriteDeadline(t time.Time) error { return nil }

//verif:prop C09
//verif:replay none
//verif:stub (*hop.computer/hop/hopclient.HopClient).startUnderlying = c09StartUnderlying
//verif:stub (*hop.computer/hop/transport.Client).LocalAddr = c09NoAddr
//verif:stub (*hop.computer/hop/transport.Client).RemoteAddr = c09NoAddr
//verif:bounds the client's muxer as built by the real HopClient.connectLocked (transport set-up stubbed), the server's muxer as hopserver.newSession builds it; each end creates one reliable or one unreliable tube of the same class before any frame is exchanged
//verif:cover both-created
func VH_C09_both_ends_of_a_session_pick_identifiers_of_opposite_parity() {
	c := &HopClient{hostconfig: &config.HostConfig{}}
	err := c.connectLocked("host.example:77", nil)
	verifAssert(err == nil && c.TubeMuxer != nil, "C09: the client builds its muxer when it connects")
	if err != nil || c.TubeMuxer == nil {
		return
	}
	server := tubes.Server(&c09Conn{}, &tubes.Config{Log: logrus.WithField("muxer", "server")})
	var a, b tubes.Tube
	var e1, e2 error
	if verifBool("reliable") {
		a, e1 = c.TubeMuxer.CreateReliableTube(common.ExecTube)
		b, e2 = server.CreateReliableTube(common.ExecTube)
	} else {
		a, e1 = c.TubeMuxer.CreateUnreliableTube(common.ExecTube)
		b, e2 = server.CreateUnreliableTube(common.ExecTube)
	}
	verifAssert(e1 == nil && e2 == nil, "C09: both ends can open a tube")
	if e1 != nil || e2 != nil {
		return
	}
	verifCover("both-created")
	verifAssert(a.GetID() != b.GetID(), "C09: tubes the two ends of a session create concurrently get distinct identifiers (the ends use opposite identifier parities)")
}

// C01 (client side): whatever the host configuration, the client ASKS for a
// name - the verification options it hands to the transport never carry the
// zero name (which would switch the name check off), and the name is the one
// the configuration designates: ServerName, else ServerIPv4, else ServerIPv6,
// else the host name.
//
//verif:prop C01
//verif:bounds ServerName, ServerIPv4, ServerIPv6, Hostname, ServerKEMKey, ServerKEMKeyPath each empty or one symbolic byte (all 64 combinations, including all empty)
//verif:cover built
func VH_C01_client_always_requests_the_configured_server_name() {
	opt := func(tag string) string {
		if verifBool(tag + "-set") {
			return verifString(tag, 1)
		}
		return ""
	}
	hc := &config.HostConfig{ServerName: opt("ServerName"), ServerIPv4: opt("ServerIPv4"), ServerIPv6: opt("ServerIPv6"), Hostname: opt("Hostname")}
	// hidden mode or not: the KEM key settings must not change what name is asked for
	hc.ServerKEMKey, hc.ServerKEMKeyPath = opt("ServerKEMKey"), opt("ServerKEMKeyPath")
	v := constructVerifyConfig(hc)
	verifCover("built")
	verifAssert(!v.Name.IsZero(), "C01: the client never hands the transport the zero name (the leaf's name is always checked)")
	verifAssert(!v.InsecureSkipVerify, "C01: verification is not switched off by constructing the options")
	want, typ := hc.Hostname, certs.TypeDNSName
	switch {
	case hc.ServerName != "":
		want = hc.ServerName
	case hc.ServerIPv4 != "":
		want, typ = hc.ServerIPv4, certs.TypeIPv4Address
	case hc.ServerIPv6 != "":
		want, typ = hc.ServerIPv6, certs.TypeIPv6Address
	}
	verifAssert(v.Name.Type == typ, "C01: the requested name has the type of the configured field")
	verifAssertStrEq(string(v.Name.Label), want, "C01: the requested name is the configured server name / address / host name")
}

// C11 (client side): the SERVER is an authenticated peer too. Whatever tube it
// opens towards the client - any type byte, reliable or not, whether or not the
// client configured remote forwards or the principal role - the client's tube
// handler and the goroutine it starts for that tube do not panic.

var c11Accepts int
var c11Type byte
var c11Reliable bool

func c11Accept(m *tubes.Muxer) (tubes.Tube, error) {
	c11Accepts++
	if c11Accepts > 1 {
		return nil, io.EOF
	}
	if c11Reliable {
		return &tubes.Reliable{}, nil
	}
	return &tubes.Unreliable{}, nil
}
func c11RelType(r *tubes.Reliable) tubes.TubeType     { return tubes.TubeType(c11Type) }
func c11UnrelType(u *tubes.Unreliable) tubes.TubeType { return tubes.TubeType(c11Type) }
func c11RelClose(r *tubes.Reliable) error             { return nil }
func c11UnrelClose(u *tubes.Unreliable) error         { return nil }
func c11RelID(r *tubes.Reliable) byte                 { return 2 }
func c11UnrelID(u *tubes.Unreliable) byte             { return 2 }
func c11RelIsRel(r *tubes.Reliable) bool              { return true }
func c11UnrelIsRel(u *tubes.Unreliable) bool          { return false }

//verif:prop C11
//verif:replay none
//verif:stub (*hop.computer/hop/tubes.Muxer).Accept = c11Accept
//verif:stub (*hop.computer/hop/tubes.Reliable).Type = c11RelType
//verif:stub (*hop.computer/hop/tubes.Unreliable).Type = c11UnrelType
//verif:stub (*hop.computer/hop/tubes.Reliable).Close = c11RelClose
//verif:stub (*hop.computer/hop/tubes.Unreliable).Close = c11UnrelClose
//verif:stub (*hop.computer/hop/tubes.Reliable).GetID = c11RelID
//verif:stub (*hop.computer/hop/tubes.Unreliable).GetID = c11UnrelID
//verif:stub (*hop.computer/hop/tubes.Reliable).IsReliable = c11RelIsRel
//verif:stub (*hop.computer/hop/tubes.Unreliable).IsReliable = c11UnrelIsRel
//verif:bounds one tube opened by the server: type byte over all 256 values, reliable or unreliable; client with or without configured remote forwards, principal role on or off; the port-forward handler goroutine started for the tube is run inline up to its first network call
//verif:cover handled
func VH_C11_client_survives_any_tube_the_server_opens() {
	c11Accepts = 0
	c11Type, c11Reliable = verifU8("tube-type"), verifBool("reliable")
	hc := &config.HostConfig{IsPrincipal: verifBool("principal-role")}
	if verifBool("remote-forwards-configured") {
		hc.RemoteFwds = &portforwarding.Forward{}
	}
	c := &HopClient{hostconfig: hc, TubeMuxer: &tubes.Muxer{}}
	c.HandleTubes()
	// run what the handler started for a port-forward tube
	for verifRunGo("HandlePF") {
	}
	verifCover("handled")
}

// C09 (principal): the sub-client a principal opens towards a TARGET runs its
// own muxer on its OWN transport connection, with the client role. Building it
// on the principal's existing session would put two client-role muxers on one
// session: the sub-client's tubes would draw identifiers from the principal's
// own space and its bytes would surface in the principal's tubes.

var c09Sub struct {
	dialled   *transport.Client
	muxerConn transport.MsgConn
	role      string
}

func c09LoadConfig(f *flags.ClientFlags) (*config.HostConfig, error) {
	return &config.HostConfig{Hostname: "target.example", IsPrincipal: true}, nil
}
func c09AuthSetup(c *HopClient) error {
	c.authenticator = &c09Auth{}
	return nil
}
func c09DialNP(address string, tube transport.UDPLike, cfg transport.ClientConfig) (*transport.Client, error) {
	c09Sub.dialled = &transport.Client{}
	return c09Sub.dialled, nil
}
func c09Handshake(c *transport.Client) error { return nil }
func c09UserAuthorization(c *HopClient) error { return nil }
func c09TubesClient(conn transport.MsgConn, cfg *tubes.Config) *tubes.Muxer {
	c09Sub.muxerConn, c09Sub.role = conn, "client"
	return &tubes.Muxer{}
}
func c09TubesServer(conn transport.MsgConn, cfg *tubes.Config) *tubes.Muxer {
	c09Sub.muxerConn, c09Sub.role = conn, "server"
	return &tubes.Muxer{}
}

type c09Auth struct{}

func (*c09Auth) Share() []byte                          { return nil }
func (*c09Auth) Agree([]byte) ([]byte, error)           { return nil, nil }
func (*c09Auth) GetVerifyConfig() transport.VerifyConfig { return transport.VerifyConfig{} }
func (*c09Auth) GetLeaf() *certs.Certificate            { return nil }
func (*c09Auth) GetServerKEMKey() *keys.KEMPublicKey    { return nil }

//verif:prop C09
//verif:replay none
//verif:stub hop.computer/hop/flags.LoadClientConfigFromFlags = c09LoadConfig
//verif:stub (*hop.computer/hop/hopclient.HopClient).authenticatorSetup = c09AuthSetup
//verif:stub hop.computer/hop/transport.DialNP = c09DialNP
//verif:stub (*hop.computer/hop/transport.Client).Handshake = c09Handshake
//verif:stub (*hop.computer/hop/hopclient.HopClient).userAuthorization = c09UserAuthorization
//verif:stub hop.computer/hop/tubes.Client = c09TubesClient
//verif:stub hop.computer/hop/tubes.Server = c09TubesServer
//verif:bounds the real HopClient.setupTargetClient of a connected principal; configuration loading, authentication set-up, dialling, handshake and user authorization succeed (stubs); the muxer constructors record the connection and role they are given
//verif:cover set-up
func VH_C09_principal_subclient_runs_its_own_muxer_on_its_own_connection() {
	principalConn := &transport.Client{}
	c := &HopClient{hostconfig: &config.HostConfig{IsPrincipal: true}, TransportConn: principalConn, TubeMuxer: &tubes.Muxer{}}
	c09Sub.dialled, c09Sub.muxerConn, c09Sub.role = nil, nil, ""
	ps, err := c.setupTargetClient(core.URL{Host: "target.example", Port: "77", User: "u"}, &tubes.Unreliable{}, nil)
	verifAssert(err == nil && ps != nil && ps.client != nil, "C09: the sub-client is set up")
	if err != nil || ps == nil || ps.client == nil {
		return
	}
	verifCover("set-up")
	verifAssert(ps.client.TransportConn == c09Sub.dialled && c09Sub.dialled != principalConn, "C09: the sub-client has its own transport connection to the target")
	verifAssert(c09Sub.muxerConn == transport.MsgConn(c09Sub.dialled), "C09: the sub-client's muxer runs on the sub-client's own connection, never on the principal's session")
	verifAssert(c09Sub.role == "client", "C09: the sub-client's muxer has the client role")
}

//verif:prop C04
//verif:bounds as VH_C01_client_always_requests_the_configured_server_name (the requested name and its TYPE are what the leaf is matched against)
//verif:cover built
func VH_C04_client_requests_the_configured_name_with_its_own_type() {
	VH_C01_client_always_requests_the_configured_server_name()
}
