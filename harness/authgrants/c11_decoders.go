package authgrants

// C11 — authorization-grant decoders on arbitrary peer bytes.

//verif:filestub golang.org/x/crypto/sha3.New256 = c18FakeSHA3

// c11Stream builds a byte stream whose length-like fields come from a small
// grid (so that offsets stay concrete per path) and whose every other byte is
// symbolic; the stream ends (EOF) at a picked position.
func c11Stream() *c18Buf {
	raw := verifBytes("stream", 260)
	raw[0] = byte(verifPick("msgtype", 1, 2, 3, 4, 9))
	raw[1] = byte(verifPick("granttype", 1, 2, 3, 4, 200))
	pos := 21
	// TargetSNI block
	idLen := verifPick("snilen", 0, 2)
	raw[pos] = byte(verifPick("snisize", 2, 5, 255))
	raw[pos+2] = byte(idLen)
	pos += 3 + idLen
	// user name
	ul := verifPick("userlen", 0, 3)
	raw[pos] = byte(ul)
	pos += 1 + ul
	// delegate certificate: 84 fixed bytes, chunk length, blocks, signature
	pos += 84
	nb := verifPick("certnames", 0, 1)
	chunk := 2
	raw[pos+1] = 0
	bpos := pos + 2
	if nb == 1 {
		l := verifPick("certnamelen", 2)
		raw[bpos] = byte(3 + l)
		raw[bpos+2] = byte(l)
		bpos += 3 + l
		chunk += 3 + l
	}
	raw[pos] = 0
	raw[pos+1] = byte(chunk + verifPick("chunkdelta", 0, -1))
	pos = bpos + 64
	// command string
	cl := verifPick("cmdlen", 0, 2)
	raw[pos] = byte(cl)
	pos += 1 + cl
	end := verifPick("eof", 0, 1, 2)
	switch end {
	case 1:
		pos--
	case 2:
		pos = pos / 2
	}
	return &c18Buf{b: raw[:pos]}
}

// AgMessage.ReadFrom / ReadIntentRequest / ReadIntentCommunication /
// ReadConfOrDenial on arbitrary bytes: a value or an error, never a panic,
// and no allocation beyond 64 KiB.
//
//verif:prop C11
//verif:bounds 260-byte stream; message type in {1,2,3,4,9} (each through its public reader), grant type in {1,2,3,4,200}; length fields picked from a grid (SNI, user, cert names, command), all other bytes symbolic; EOF at full length, one byte short, or half
//verif:cover returned-value;returned-error
//verif:timeout 900
func VH_C11_agmessage_decoders_total() {
	s := c11Stream()
	verifAllocLimit(65536 + 260)
	var err error
	switch raw0 := s.b[0]; {
	case raw0 == 1:
		_, err = ReadIntentRequest(s)
	case raw0 == 2:
		_, err = ReadIntentCommunication(s)
	case raw0 == 3 || raw0 == 4:
		_, err = ReadConfOrDenial(s)
	default:
		var m AgMessage
		_, err = m.ReadFrom(s)
	}
	if err != nil {
		verifCover("returned-error")
	} else {
		verifCover("returned-value")
	}
}

// ReadResponse / ReadTargetInfo on arbitrary bytes.
//
//verif:prop C11
//verif:bounds stream length in {0,1,2,4,40}; response code and reason bytes symbolic; target-URL length byte in {0,1,3,200} (URL text parsing is exponential in its length), bytes symbolic
//verif:cover returned
func VH_C11_proxy_decoders_total() {
	n := verifPick("streamlen", 0, 1, 2, 4, 40)
	raw := verifBytes("stream", n)
	s := &c18Buf{b: raw}
	verifAllocLimit(65536 + 40)
	if verifBool("response") {
		_ = ReadResponse(s)
	} else {
		if n >= 1 {
			raw[0] = byte(verifPick("urllen", 0, 1, 3, 200))
		}
		_, _ = ReadTargetInfo(s)
	}
	verifCover("returned")
}
