package authgrants

import (
	"hash"
	"io"
	"net"
	"time"

	"hop.computer/hop/certs"
)

// C11 / C18 — authorization-grant messages.

type c18Buf struct {
	b   []byte
	off int
}

func (v *c18Buf) Write(p []byte) (int, error) {
	v.b = append(v.b, p...)
	return len(p), nil
}

func (v *c18Buf) Read(p []byte) (int, error) {
	if v.off >= len(v.b) {
		return 0, io.EOF
	}
	n := copy(p, v.b[v.off:])
	v.off += n
	return n, nil
}

type c18Hash struct{}

func (c18Hash) Write(p []byte) (int, error) { return len(p), nil }
func (c18Hash) Sum(b []byte) []byte          { return append(b, verifFreshBytes("sha3", 32)...) }
func (c18Hash) Reset()                       {}
func (c18Hash) Size() int                    { return 32 }
func (c18Hash) BlockSize() int               { return 136 }

func c18FakeSHA3() hash.Hash { return c18Hash{} }

//verif:filestub golang.org/x/crypto/sha3.New256 = c18FakeSHA3

var c18Full bool

func c18Name(tag string) certs.Name {
	n := verifPick(tag+"len", 0, 4, 252)
	verifAssume(c18Full || n != 4)
	return certs.Name{Label: verifBytes(tag, n), Type: certs.IDType(verifU8(tag + "type"))}
}

func c18Intent() Intent {
	i := Intent{
		GrantType:  GrantType(verifU8("granttype")),
		Reserved:   verifU8("reserved"),
		TargetPort: verifU16("port"),
		StartTime:  time.Unix(int64(verifU64("start")>>1), 0),
		ExpTime:    time.Unix(int64(verifU64("exp")>>1), 0),
		TargetSNI:  c18Name("sni"),
	}
	ul := verifPick("userlen", 0, 255, 256)
	verifAssume(c18Full || ul != 255)
	i.TargetUsername = verifString("user", ul)
	i.DelegateCert.Version = verifU8("cversion")
	i.DelegateCert.Type = certs.CertificateType(verifU8("ctype"))
	i.DelegateCert.IssuedAt = time.Unix(int64(verifU64("cissued")>>1), 0)
	i.DelegateCert.ExpiresAt = time.Unix(int64(verifU64("cexpires")>>1), 0)
	copy(i.DelegateCert.PublicKey[:], verifBytes("cpub", 32))
	copy(i.DelegateCert.Parent[:], verifBytes("cparent", 32))
	copy(i.DelegateCert.Signature[:], verifBytes("csig", 64))
	if verifBool("cert-has-name") {
		i.DelegateCert.IDChunk.Blocks = []certs.Name{{Label: verifBytes("certname", 3), Type: certs.IDType(verifU8("certnametype"))}}
	}
	cl := verifPick("cmdlen", 0, 255, 256)
	verifAssume(c18Full || cl != 0)
	i.AssociatedData.CommandGrantData.Cmd = verifString("cmd", cl)
	return i
}

func c18NameEq(a, b certs.Name, label string) {
	verifAssert(a.Type == b.Type, label+": name type")
	verifAssertBytesEq(a.Label, b.Label, label+": name label")
}

func c18IntentEq(a, b *Intent, label string) {
	verifAssert(a.GrantType == b.GrantType, label+": grant type")
	verifAssert(a.Reserved == b.Reserved, label+": reserved")
	verifAssert(a.TargetPort == b.TargetPort, label+": target port")
	verifAssert(a.StartTime.Unix() == b.StartTime.Unix(), label+": start time")
	verifAssert(a.ExpTime.Unix() == b.ExpTime.Unix(), label+": expiry time")
	c18NameEq(a.TargetSNI, b.TargetSNI, label+": target SNI")
	verifAssertStrEq(a.TargetUsername, b.TargetUsername, label+": target user name")
	verifAssert(a.DelegateCert.Version == b.DelegateCert.Version, label+": delegate cert version")
	verifAssert(a.DelegateCert.Type == b.DelegateCert.Type, label+": delegate cert type")
	verifAssert(a.DelegateCert.IssuedAt.Unix() == b.DelegateCert.IssuedAt.Unix(), label+": delegate cert issued-at")
	verifAssert(a.DelegateCert.ExpiresAt.Unix() == b.DelegateCert.ExpiresAt.Unix(), label+": delegate cert expires-at")
	verifAssert(a.DelegateCert.PublicKey == b.DelegateCert.PublicKey, label+": delegate key")
	verifAssert(a.DelegateCert.Parent == b.DelegateCert.Parent, label+": delegate cert parent")
	verifAssert(a.DelegateCert.Signature == b.DelegateCert.Signature, label+": delegate cert signature")
	verifAssert(len(a.DelegateCert.IDChunk.Blocks) == len(b.DelegateCert.IDChunk.Blocks), label+": delegate cert names")
	if len(a.DelegateCert.IDChunk.Blocks) == len(b.DelegateCert.IDChunk.Blocks) {
		for k := range a.DelegateCert.IDChunk.Blocks {
			c18NameEq(a.DelegateCert.IDChunk.Blocks[k], b.DelegateCert.IDChunk.Blocks[k], label+": delegate cert name")
		}
	}
	if a.GrantType == Command {
		verifAssertStrEq(a.AssociatedData.CommandGrantData.Cmd, b.AssociatedData.CommandGrantData.Cmd, label+": command")
	}
}

// An intent request/communication either fails to encode or decodes to the
// same intent, field for field (what the principal approves is what the target
// receives). An encoder that panics counts as a violation, not as a rejection.
//
//verif:prop C18
//verif:bounds message type request/communication; grant type over all 256 values; all scalar fields symbolic; SNI label length in {0,4,252}, optional 3-byte certificate name, user and command length in {0,255,256}, bytes symbolic; SHA3 replaced by fresh bytes
//verif:cover accepted;rejected
//verif:timeout 1800
//verif:tier thorough
func VH_C18_intent_roundtrip_full() { c18Full = true; c18IntentRT() }

//verif:prop C18
//verif:bounds as the full variant with SNI label length in {0,252}, user length in {0,256}, command length in {255,256}
//verif:cover accepted;rejected
//verif:timeout 400
//verif:tier quick
func VH_C18_intent_roundtrip() { c18Full = false; c18IntentRT() }

func c18IntentRT() {
	in := c18Intent()
	mt := IntentRequest
	if verifBool("communication") {
		mt = IntentCommunication
	}
	m := AgMessage{MsgType: mt, Data: MessageData{Intent: in}}
	w := &c18Buf{b: make([]byte, 0, 4096)}
	_, err := m.WriteTo(w)
	if err != nil {
		verifCover("rejected")
		// only what cannot be represented may be refused: a string beyond the
		// one-byte length field, or a grant type whose data has no encoding
		tooLong := verifOr(len(in.TargetUsername) > 255, verifAnd(in.GrantType == Command, len(in.AssociatedData.CommandGrantData.Cmd) > 255))
		verifAssert(verifOr(tooLong, verifOr(in.GrantType == LocalPF, in.GrantType == RemotePF)), "C18: an intent whose fields all fit their length fields (user name and command of up to 255 bytes) is encoded, not refused half-way")
		verifAssert(len(w.b) == 0, "C18: a message that cannot be represented is rejected when encoding - nothing of it reaches the stream (a partial message would mis-frame whatever the sender writes next on the same connection)")
		return
	}
	verifCover("accepted")
	var got AgMessage
	_, err = got.ReadFrom(w)
	verifAssert(err == nil, "C18: encoded intent message decodes")
	if err != nil {
		return
	}
	verifAssert(got.MsgType == mt, "C18: intent message type round-trips")
	c18IntentEq(&got.Data.Intent, &in, "C18: intent round-trip")
	verifAssert(w.off == len(w.b), "C18: intent decode consumes exactly the encoding")
}

// Denials and confirmations.
//
//verif:prop C18
//verif:bounds reason length in {0,1,255,256,300}, bytes symbolic
//verif:cover accepted;rejected;confirmation
func VH_C18_conf_or_denial_roundtrip() {
	w := &c18Buf{b: make([]byte, 0, 1024)}
	if verifBool("confirm") {
		verifAssert(WriteIntentConfirmation(w) == nil, "C18: confirmation encodes")
		m, err := ReadConfOrDenial(w)
		verifAssert(err == nil && m.MsgType == IntentConfirmation, "C18: confirmation round-trips")
		verifCover("confirmation")
		return
	}
	reason := verifString("reason", verifPick("reasonlen", 0, 1, 255, 256, 300))
	if WriteIntentDenied(w, reason) != nil {
		verifCover("rejected")
		return
	}
	verifCover("accepted")
	m, err := ReadConfOrDenial(w)
	verifAssert(err == nil, "C18: denial decodes")
	if err == nil {
		verifAssert(m.MsgType == IntentDenied, "C18: denial type round-trips")
		verifAssertStrEq(m.Data.Denial, reason, "C18: denial reason round-trips")
	}
}

// Proxy failure / confirmation messages.
//
//verif:prop C18
//verif:bounds reason length in {1,255,256}, bytes symbolic
func VH_C18_proxy_response_roundtrip() {
	w := &c18Buf{b: make([]byte, 0, 1024)}
	if verifBool("confirm") {
		verifAssert(WriteConfirmation(w) == nil, "C18: proxy confirmation encodes")
		verifAssert(ReadResponse(w) == nil, "C18: proxy confirmation round-trips")
		return
	}
	reason := verifString("reason", verifPick("reasonlen", 1, 255, 256))
	if WriteFailure(w, reason) != nil {
		return
	}
	err := ReadResponse(w)
	verifAssert(err != nil, "C18: proxy failure decodes to an error")
	verifAssert(w.off == len(w.b), "C18: proxy failure decode consumes exactly the encoding")
}

// Target info (principal proxy): the URL a delegate names is the URL the
// principal connects to - user, host and port survive the textual form.
//
//verif:prop C18
//verif:bounds target URL as Intent.TargetURL builds it: host (SNI label) "host.example" or an IPv6 literal, port 0 / 22 / 65535 (always present), user name "" / one symbolic byte / "u" + one symbolic byte (every byte value: '@', '/', '%', space, non-ASCII ...); real net/url formatting and parsing
//verif:cover roundtrip
//verif:timeout 900
func VH_C18_target_info_roundtrip() {
	in := Intent{TargetPort: uint16(verifPick("port", 0, 22, 65535))}
	in.TargetSNI.Label = []byte("host.example")
	if verifBool("ipv6-host") {
		in.TargetSNI.Label = []byte("2001:db8::1")
	}
	switch verifPick("user-shape", 0, 1, 2) {
	case 1:
		in.TargetUsername = verifString("user", 1)
	case 2:
		in.TargetUsername = "u" + verifString("user", 1)
	}
	u := in.TargetURL()
	w := &c18TIBuf{}
	if err := WriteTargetInfo(u, w); err != nil {
		return
	}
	got, err := ReadTargetInfo(w)
	verifAssert(err == nil, "C18: target info written by WriteTargetInfo is readable by ReadTargetInfo")
	if err != nil {
		return
	}
	verifCover("roundtrip")
	verifAssertStrEq(got.User, u.User, "C18: target info round-trip: user")
	verifAssertStrEq(got.Host, u.Host, "C18: target info round-trip: host")
	verifAssertStrEq(got.Port, u.Port, "C18: target info round-trip: port")
	verifAssert(w.off == len(w.b), "C18: ReadTargetInfo consumes exactly what WriteTargetInfo wrote")
}

type c18TIBuf struct {
	b   []byte
	off int
}

func (v *c18TIBuf) Write(p []byte) (int, error) { v.b = append(v.b, p...); return len(p), nil }
func (v *c18TIBuf) Read(p []byte) (int, error) {
	if v.off >= len(v.b) {
		return 0, io.EOF
	}
	n := copy(p, v.b[v.off:])
	v.off += n
	return n, nil
}

// A target handles every intent communication of one authgrant tube: what it
// checks and stores for the SECOND one is the second intent as sent - nothing
// of the first (certificate names, command text) leaks into it.

type c18Pipe struct {
	c18TIBuf
}

func (p *c18Pipe) Close() error                       { return nil }
func (p *c18Pipe) LocalAddr() net.Addr                { return nil }
func (p *c18Pipe) RemoteAddr() net.Addr               { return nil }
func (p *c18Pipe) SetDeadline(t time.Time) error      { return nil }
func (p *c18Pipe) SetReadDeadline(t time.Time) error  { return nil }
func (p *c18Pipe) SetWriteDeadline(t time.Time) error { return nil }

func c18SmallIntent(tag string) Intent {
	i := Intent{GrantType: GrantType(verifPick(tag+"-granttype", int(Shell), int(Command))), TargetPort: 22, StartTime: time.Unix(1000, 0), ExpTime: time.Unix(2000, 0), TargetUsername: "u"}
	i.TargetSNI = certs.Name{Label: []byte("t"), Type: certs.TypeDNSName}
	i.DelegateCert.Version = 1
	i.DelegateCert.Type = certs.Leaf
	i.DelegateCert.IssuedAt, i.DelegateCert.ExpiresAt = time.Unix(1000, 0), time.Unix(2000, 0)
	nn := verifPick(tag+"-cert-names", 0, 1)
	for k := 0; k < nn; k++ {
		i.DelegateCert.IDChunk.Blocks = append(i.DelegateCert.IDChunk.Blocks, certs.Name{Label: verifBytes(tag+"-cert-name", 1), Type: certs.TypeDNSName})
	}
	if i.GrantType == Command {
		i.AssociatedData.CommandGrantData.Cmd = verifString(tag+"-cmd", 1)
	}
	return i
}

//verif:prop C18
//verif:stub golang.org/x/crypto/sha3.New256 = c18FakeSHA3
//verif:bounds two consecutive intent communications on one target instance: each a shell or command intent, delegate certificate with 0..1 names of one symbolic byte, command of one symbolic byte; real codecs on both sides; target policy accepts
//verif:cover both-stored
//verif:timeout 600
func VH_C18_target_decodes_each_intent_of_a_connection_on_its_own() {
	first, second := c18SmallIntent("first"), c18SmallIntent("second")
	conn := &c18Pipe{}
	wire := &c18TIBuf{}
	verifAssert(WriteIntentCommunication(wire, first) == nil && WriteIntentCommunication(wire, second) == nil, "C18: both intents are encoded")
	conn.b = wire.b
	var stored []Intent
	t := &targetInstance{principalConn: conn,
		checkIntent:  func(i Intent, c *certs.Certificate) error { return nil },
		addAuthGrant: func(i *Intent) error { stored = append(stored, *i); return nil }}
	verifAssert(t.handleIntentCommunication() == nil && t.handleIntentCommunication() == nil, "C18: both intent communications are handled")
	verifAssert(len(stored) == 2, "C18: both grants are stored")
	if len(stored) != 2 {
		return
	}
	verifCover("both-stored")
	c18IntentEq(&stored[0], &first, "C18: first intent stored by the target")
	c18IntentEq(&stored[1], &second, "C18: second intent stored by the target (nothing of the first one leaks into it)")
	if second.GrantType != Command {
		verifAssert(stored[1].AssociatedData.CommandGrantData.Cmd == "", "C18: a shell intent that follows a command intent carries no command")
	}
}
