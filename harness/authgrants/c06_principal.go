package authgrants

import (
	"errors"
	"io"
	"net"
	"time"

	"hop.computer/hop/certs"
	"hop.computer/hop/core"
)

// C06 — nothing is delegated without the principal approving that exact intent.
//
// The four message functions the principal uses are replaced by recorders (the
// codecs themselves are C18's subject, and VH_C06_forwarded_intent_redecodes
// runs the real ones); the approval callback, the target-connection set-up and
// the target's answer are nondeterministic.

type c06Conn struct{ name string }

func (c *c06Conn) Read(p []byte) (int, error)         { return 0, errors.New("unused") }
func (c *c06Conn) Write(p []byte) (int, error)        { return len(p), nil }
func (c *c06Conn) Close() error                       { return nil }
func (c *c06Conn) LocalAddr() net.Addr                { return nil }
func (c *c06Conn) RemoteAddr() net.Addr               { return nil }
func (c *c06Conn) SetDeadline(t time.Time) error      { return nil }
func (c *c06Conn) SetReadDeadline(t time.Time) error  { return nil }
func (c *c06Conn) SetWriteDeadline(t time.Time) error { return nil }

var c06 struct {
	delegate, target *c06Conn
	// per request
	toDelegateConf, toDelegateDenied int
	forwarded                        int
	forwardedIntent                  Intent
	approved                         bool
	approvedIntent                   Intent
	callbackCalls                    int
	targetConfirmed                  bool
	targetAsked                      int
	sendFailed                       bool
}

func c06Reset() {
	c06.toDelegateConf, c06.toDelegateDenied, c06.forwarded, c06.callbackCalls, c06.targetAsked = 0, 0, 0, 0, 0
	c06.approved, c06.targetConfirmed, c06.sendFailed = false, false, false
}

func c06WriteIntentDenied(w interface{ Write([]byte) (int, error) }, reason string) error {
	if w == interface{ Write([]byte) (int, error) }(c06.delegate) {
		c06.toDelegateDenied++
	}
	return nil
}

func c06WriteIntentConfirmation(w interface{ Write([]byte) (int, error) }) error {
	if w == interface{ Write([]byte) (int, error) }(c06.delegate) {
		c06.toDelegateConf++
	}
	return nil
}

func c06WriteIntentCommunication(w interface{ Write([]byte) (int, error) }, i Intent) error {
	c06.forwarded++
	c06.forwardedIntent = i
	if verifBool("send-to-target-fails") {
		c06.sendFailed = true
		return errors.New("target connection broken")
	}
	return nil
}

func c06ReadConfOrDenial(r interface{ Read([]byte) (int, error) }) (AgMessage, error) {
	c06.targetAsked++
	switch verifPick("target-answer", 0, 1, 2) {
	case 0:
		c06.targetConfirmed = true
		return AgMessage{MsgType: IntentConfirmation}, nil
	case 1:
		return AgMessage{MsgType: IntentDenied, Data: MessageData{Denial: "no"}}, nil
	}
	return AgMessage{}, errors.New("target went away")
}

func c06CheckIntent(i Intent, c *certs.Certificate) error {
	c06.callbackCalls++
	if verifBool("principal-approves") {
		c06.approved = true
		c06.approvedIntent = i
		return nil
	}
	return errors.New("principal says no")
}

func c06SetUp(u core.URL, cb AdditionalVerifyCallback) (net.Conn, error) {
	switch verifPick("setup", 0, 1, 2) {
	case 0:
		return nil, errors.New("target unreachable") // before the handshake callback
	case 1:
		if err := cb(&certs.Certificate{}); err != nil {
			return nil, err
		}
		return c06.target, nil
	}
	if err := cb(&certs.Certificate{}); err != nil {
		return nil, err
	}
	return nil, errors.New("target refused after the handshake") // e.g. user auth failed
}

func c06IntentReq(tag string) Intent {
	i := Intent{
		GrantType:      GrantType(verifU8(tag + "-granttype")),
		Reserved:       verifU8(tag + "-reserved"),
		TargetPort:     verifU16(tag + "-port"),
		StartTime:      time.Unix(int64(verifU32(tag+"-start")), 0),
		ExpTime:        time.Unix(int64(verifU32(tag+"-exp")), 0),
		TargetUsername: verifString(tag+"-user", 1),
	}
	i.TargetSNI = certs.Name{Label: verifBytes(tag+"-sni", 1), Type: certs.TypeDNSName}
	i.DelegateCert.PublicKey[0] = verifU8(tag + "-delegatekey")
	i.AssociatedData.CommandGrantData.Cmd = verifString(tag+"-cmd", 1)
	return i
}

func c06IntentEq(a, b *Intent) bool {
	e := verifAnd(a.GrantType == b.GrantType, verifAnd(a.Reserved == b.Reserved, a.TargetPort == b.TargetPort))
	e = verifAnd(e, verifAnd(a.StartTime.Unix() == b.StartTime.Unix(), a.ExpTime.Unix() == b.ExpTime.Unix()))
	e = verifAnd(e, verifAnd(verifStrEq(a.TargetUsername, b.TargetUsername), verifBytesEq(a.TargetSNI.Label, b.TargetSNI.Label)))
	e = verifAnd(e, verifAnd(a.DelegateCert.PublicKey == b.DelegateCert.PublicKey, verifStrEq(a.AssociatedData.CommandGrantData.Cmd, b.AssociatedData.CommandGrantData.Cmd)))
	return e
}

func c06Run(k int) {
	c06.delegate, c06.target = &c06Conn{name: "delegate"}, &c06Conn{name: "target"}
	p := &principalInstance{delegateConn: c06.delegate, checkIntent: c06CheckIntent, setUpTargetConn: c06SetUp}
	for r := 0; r < k; r++ {
		c06Reset()
		req := c06IntentReq("request")
		wasConnected, oldTarget := p.targetConnected, p.targetInfo
		err := p.doIntentRequestChecks(req)
		verifAssert(err == nil, "C06: answering the delegate does not fail on a working delegate connection")
		answers := c06.toDelegateConf + c06.toDelegateDenied
		verifAssert(answers == 1, "C06: the delegate receives exactly one answer per request")
		if c06.forwarded > 0 {
			verifCover("forwarded")
			verifAssert(c06.forwarded == 1, "C06: an intent is forwarded at most once per request")
			verifAssert(c06.approved, "C06: an intent is forwarded only after the approval callback accepted it in this request (every request, not only the first)")
			if c06.approved {
				verifAssert(c06IntentEq(&c06.forwardedIntent, &c06.approvedIntent), "C06: the forwarded intent is field for field the approved one")
				verifAssert(c06IntentEq(&c06.forwardedIntent, &req), "C06: the forwarded intent is the requested one")
			}
		} else {
			verifCover("not-forwarded")
		}
		if wasConnected && req.TargetURL() != oldTarget {
			verifAssert(c06.forwarded == 0 && c06.toDelegateDenied == 1, "C06: a request for a different target on a connected instance is denied and not forwarded")
			verifCover("different-target")
		}
		verifAssert((c06.toDelegateConf == 1) == (c06.forwarded > 0 && c06.targetConfirmed), "C06: the delegate is told 'confirmed' iff the target confirmed the forwarded intent")
		if c06.toDelegateConf == 1 {
			verifCover("confirmed")
		}
		if r > 0 {
			verifCover("later-request")
		}
	}
}

//verif:prop C06
//verif:stub hop.computer/hop/authgrants.WriteIntentDenied = c06WriteIntentDenied
//verif:stub hop.computer/hop/authgrants.WriteIntentConfirmation = c06WriteIntentConfirmation
//verif:stub hop.computer/hop/authgrants.WriteIntentCommunication = c06WriteIntentCommunication
//verif:stub hop.computer/hop/authgrants.ReadConfOrDenial = c06ReadConfOrDenial
//verif:replay none
//verif:bounds 2 consecutive intent requests on one delegate connection; every scalar intent field symbolic, user/SNI/command of one symbolic byte (same or different target), approval callback approves/denies, target set-up: unreachable / handshake then success / handshake then failure, sending to the target may fail, target answers confirm/deny/error
//verif:cover forwarded;not-forwarded;different-target;confirmed;later-request
//verif:timeout 900
func VH_C06_principal_two_requests() { c06Run(2) }

//verif:prop C06
//verif:stub hop.computer/hop/authgrants.WriteIntentDenied = c06WriteIntentDenied
//verif:stub hop.computer/hop/authgrants.WriteIntentConfirmation = c06WriteIntentConfirmation
//verif:stub hop.computer/hop/authgrants.WriteIntentCommunication = c06WriteIntentCommunication
//verif:stub hop.computer/hop/authgrants.ReadConfOrDenial = c06ReadConfOrDenial
//verif:replay none
//verif:tier thorough
//verif:bounds as the 2-request variant with 3 consecutive requests
//verif:cover forwarded;not-forwarded;different-target;confirmed;later-request
//verif:timeout 3000
func VH_C06_principal_three_requests() { c06Run(3) }

// The target side: a confirmation is written iff the target's policy accepted
// the intent and the grant was stored; one answer per message.
//
//verif:prop C06
//verif:stub hop.computer/hop/authgrants.WriteIntentDenied = c06WriteIntentDenied
//verif:stub hop.computer/hop/authgrants.WriteIntentConfirmation = c06WriteIntentConfirmation
//verif:stub hop.computer/hop/authgrants.ReadIntentCommunication = c06ReadIntentCommunication
//verif:replay none
//verif:bounds one intent communication (or read error); target policy and grant storage succeed or fail nondeterministically
//verif:cover confirmed;denied;read-error
func VH_C06_target_confirms_only_stored_grants() {
	c06.delegate = &c06Conn{name: "principal-side"}
	c06Reset()
	policyOK, storeOK := verifBool("target-policy-accepts"), verifBool("grant-stored")
	stored := 0
	var storedIntent Intent
	t := &targetInstance{principalConn: c06.delegate,
		checkIntent: func(i Intent, c *certs.Certificate) error {
			if policyOK {
				return nil
			}
			return errors.New("policy")
		},
		addAuthGrant: func(i *Intent) error {
			if storeOK {
				stored++
				storedIntent = *i
				return nil
			}
			return errors.New("cannot store")
		}}
	c06.approvedIntent = c06IntentReq("communication")
	err := t.handleIntentCommunication()
	if err != nil {
		verifCover("read-error")
		verifAssert(c06.toDelegateConf == 0 && stored == 0, "C06: nothing is confirmed or stored when the message cannot be read")
		return
	}
	verifAssert(c06.toDelegateConf+c06.toDelegateDenied == 1, "C06: the target answers each intent communication exactly once")
	verifAssert((c06.toDelegateConf == 1) == (policyOK && storeOK), "C06: the target confirms iff its policy accepted the intent and the grant was stored")
	if c06.toDelegateConf == 1 {
		verifCover("confirmed")
		verifAssert(stored == 1 && c06IntentEq(&storedIntent, &c06.approvedIntent), "C06: the stored grant is the intent that was communicated")
	} else {
		verifCover("denied")
		verifAssert(stored == 0 || !policyOK || !storeOK, "C06: a denied intent is not stored")
	}
}

func c06ReadIntentCommunication(r interface{ Read([]byte) (int, error) }) (Intent, error) {
	if verifBool("read-fails") {
		return Intent{}, errors.New("read error")
	}
	return c06.approvedIntent, nil
}

// What is forwarded re-decodes to what was approved (real codecs).
//
//verif:prop C06
//verif:stub golang.org/x/crypto/sha3.New256 = c18FakeSHA3
//verif:bounds as VH_C18_intent_roundtrip, for the intent-communication message the principal forwards
//verif:cover accepted;rejected
//verif:timeout 400
func VH_C06_forwarded_intent_redecodes_to_approved() { c18Full = false; c18IntentRT() }

// ---- the target's answer as raw bytes through the real ReadConfOrDenial ----

type c06WireConn struct {
	c06Conn
	b   []byte
	off int
}

func (c *c06WireConn) Read(p []byte) (int, error) {
	if c.off >= len(c.b) {
		return 0, io.EOF
	}
	n := copy(p, c.b[c.off:])
	c.off += n
	return n, nil
}

var c06Wire *c06WireConn

func c06SetUpWire(u core.URL, cb AdditionalVerifyCallback) (net.Conn, error) {
	if err := cb(&certs.Certificate{}); err != nil {
		return nil, err
	}
	return c06Wire, nil
}

// Whatever bytes the target connection delivers as its answer, the delegate is
// told "confirmed" only if they are a well-formed confirmation message.
//
//verif:prop C06
//verif:stub hop.computer/hop/authgrants.WriteIntentDenied = c06WriteIntentDenied
//verif:stub hop.computer/hop/authgrants.WriteIntentConfirmation = c06WriteIntentConfirmation
//verif:stub hop.computer/hop/authgrants.WriteIntentCommunication = c06WriteIntentCommunication
//verif:replay none
//verif:bounds one intent request (fields as in the 2-request harness), approval callback approves/denies, target reachable; the target's answer is an arbitrary byte string of length 0..4 (type byte over all 256 values, then arbitrary bytes) read by the real ReadConfOrDenial / AgMessage.ReadFrom
//verif:cover confirmed;denied-by-target;garbled-answer;not-forwarded
//verif:timeout 600
func VH_C06_only_a_wellformed_confirmation_is_relayed_as_confirmation() {
	n := verifPick("answer-len", 0, 1, 2, 3, 4)
	c06.delegate = &c06Conn{name: "delegate"}
	c06Wire = &c06WireConn{b: verifBytes("target-answer", n)}
	c06.target = &c06Wire.c06Conn
	p := &principalInstance{delegateConn: c06.delegate, checkIntent: c06CheckIntent, setUpTargetConn: c06SetUpWire}
	c06Reset()
	req := c06IntentReq("request")
	err := p.doIntentRequestChecks(req)
	verifAssert(err == nil, "C06: answering the delegate does not fail on a working delegate connection")
	verifAssert(c06.toDelegateConf+c06.toDelegateDenied == 1, "C06: the delegate receives exactly one answer per request")
	isConf := n >= 1 && c06Wire.b[0] == byte(IntentConfirmation)
	if c06.forwarded == 0 {
		verifCover("not-forwarded")
		verifAssert(c06.toDelegateConf == 0, "C06: nothing is confirmed without forwarding")
		return
	}
	verifAssert(c06.approved, "C06: an intent is forwarded only after the approval callback accepted it in this request (every request, not only the first)")
	if c06.toDelegateConf == 1 {
		verifCover("confirmed")
		verifAssert(isConf, "C06: the delegate is told 'confirmed' only if the target's answer is a confirmation message (any other type byte or a truncated answer is a denial)")
	} else if n >= 1 && c06Wire.b[0] == byte(IntentDenied) {
		verifCover("denied-by-target")
	} else {
		verifCover("garbled-answer")
	}
	verifAssert(verifOr(!isConf, verifOr(c06.toDelegateConf == 1, c06.sendFailed)), "C06: a confirmation from the target reaches the delegate as a confirmation")
}
