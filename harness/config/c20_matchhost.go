package config

import (
	"errors"
	"io"
	"io/fs"

	"github.com/AstromechZA/etcpwdparse"
	"github.com/BurntSushi/toml"

	"hop.computer/hop/certs"
	"hop.computer/hop/keys"
	"hop.computer/hop/pkg/thunks"
)

// C20 (consequence) — a client applies exactly the host blocks whose patterns
// match the requested host, in order, each once. Patterns are chosen per path
// from {absent, matching, non-matching} for each of <=3 blocks x <=2 patterns
// (real Glob runs on them); CAFiles (appended by MergeWith) is the observable
// log of applied blocks.

func c20Pick(tag string) (string, bool, bool) {
	switch verifU8(tag) % 4 {
	case 0:
		return "", false, false // absent
	case 1:
		return "*.example", true, true
	case 2:
		return "h*st.ex*le", true, true
	default:
		return "other.example", true, false
	}
}

//verif:prop C20
//verif:bounds <=3 host blocks x <=2 patterns, each pattern absent / one of two matching globs / non-matching; host fixed "host.example"; real glob.Glob
//verif:cover none-applied;all-applied;some-applied
func VH_C20_matchhost_applies_exactly_matching_blocks() {
	host := "host.example"
	names := []string{"b0", "b1", "b2"}
	cc := &ClientConfig{}
	cc.Global.CAFiles = []string{"global"}
	nb := int(verifU8("nblocks") % 4)
	var want []string
	want = append(want, "global")
	for i := 0; i < nb; i++ {
		hc := HostConfigOptional{CAFiles: []string{names[i]}}
		applies := false
		for k := 0; k < 2; k++ {
			p, present, matches := c20Pick("pattern")
			if present {
				hc.Patterns = append(hc.Patterns, p)
				if matches {
					applies = true
				}
			}
		}
		cc.Hosts = append(cc.Hosts, hc)
		if applies {
			want = append(want, names[i])
		}
	}
	got := cc.MatchHost(host)
	verifAssert(len(got.CAFiles) == len(want), "C20: MatchHost merges each matching host block exactly once")
	if len(got.CAFiles) == len(want) {
		for i := range want {
			verifAssert(got.CAFiles[i] == want[i], "C20: MatchHost merges the matching host blocks in order")
		}
	}
	switch {
	case len(want) == 1:
		verifCover("none-applied")
	case len(want) == nb+1:
		verifCover("all-applied")
	default:
		verifCover("some-applied")
	}
}

// ---- C05: the server configuration switches that decide who may log in ----
//
// The TOML decoder is replaced by a fake that fills the parsed schema with
// arbitrary values of each optional switch (absent / false / true); key and
// certificate files are dummies. What is checked is the MAPPING from the parsed
// file to the ServerConfig the server runs with: every switch follows its own
// key, and an absent key means off.

type c05File struct{}

func (c05File) Stat() (fs.FileInfo, error) { return nil, errors.New("unused") }
func (c05File) Read([]byte) (int, error)   { return 0, io.EOF }
func (c05File) Close() error               { return nil }

type c05FS struct{}

func (c05FS) Open(name string) (fs.File, error) { return c05File{}, nil }

func c05OptBool(tag string) *bool {
	switch verifPick(tag, 0, 1, 2) {
	case 1:
		v := false
		return &v
	case 2:
		v := true
		return &v
	}
	return nil
}

var c05Parsed *serverConfigSchema

func c05Decode(d *toml.Decoder, v interface{}) (toml.MetaData, error) {
	p := v.(*serverConfigSchema)
	p.EnableAuthgrants = c05OptBool("EnableAuthgrants")
	p.EnableAuthorizedKeys = c05OptBool("EnableAuthorizedKeys")
	p.InsecureSkipVerify = c05OptBool("InsecureSkipVerify")
	p.DisableCertificateValidation = c05OptBool("DisableCertificateValidation")
	p.AutoSelfSign = c05OptBool("AutoSelfSign")
	c05Parsed = p
	return toml.MetaData{}, nil
}

func c05Undecoded(m *toml.MetaData) ([]toml.Key, []int) { return nil, nil }

func c05ReadDHKey(path string, f fs.FS) (*keys.X25519KeyPair, error) {
	return &keys.X25519KeyPair{}, nil
}
func c05ReadCert(path string, f fs.FS) (*certs.Certificate, error) { return &certs.Certificate{}, nil }

func c05On(p *bool) bool { return p != nil && *p }

//verif:prop C05
//verif:replay none
//verif:stub (*github.com/BurntSushi/toml.Decoder).Decode = c05Decode
//verif:stub (*github.com/BurntSushi/toml.MetaData).UndecodedWithLines = c05Undecoded
//verif:stub hop.computer/hop/keys.ReadDHKeyFromPEMFileFS = c05ReadDHKey
//verif:stub hop.computer/hop/certs.ReadCertificatePEMFileFS = c05ReadCert
//verif:bounds server configuration file in which each of EnableAuthgrants, EnableAuthorizedKeys, InsecureSkipVerify, DisableCertificateValidation, AutoSelfSign is absent, false or true (3^5 files); TOML syntax and key/certificate files replaced by fakes
//verif:cover loaded
func VH_C05_every_access_switch_of_the_server_config_follows_its_own_key() {
	fileSystem = c05FS{}
	c, err := loadServerConfigFromFile(&ServerConfig{}, "config.toml")
	verifAssert(err == nil && c != nil, "C05: the configuration loads")
	if err != nil || c == nil {
		return
	}
	p := c05Parsed
	verifAssert(c.EnableAuthgrants == c05On(p.EnableAuthgrants), "C05: authorization grants are honoured iff the file says EnableAuthgrants = true (absent means disabled; no other key switches them on)")
	verifAssert(c.EnableAuthorizedKeys == c05On(p.EnableAuthorizedKeys), "C05: EnableAuthorizedKeys follows its own key")
	verifAssert(c.InsecureSkipVerify == c05On(p.InsecureSkipVerify), "C05: InsecureSkipVerify follows its own key")
	verifAssert(c.DisableCertificateValidation == c05On(p.DisableCertificateValidation), "C05: DisableCertificateValidation follows its own key")
	verifAssert(c.AutoSelfSign == c05On(p.AutoSelfSign), "C05: AutoSelfSign follows its own key")
	verifCover("loaded")
}

// The account whose authorized_keys file is consulted is the account the
// client asked to log in as - byte for byte ("Bob" is not "bob": the session
// later runs as the requested name).

var c05LookedUp []string

//verif:prop C05
//verif:bounds requested user name of 1..2 symbolic bytes (every byte value); the passwd lookup is a recorder
//verif:cover looked-up
func VH_C05_authorized_keys_directory_is_the_requested_accounts() {
	c05LookedUp = nil
	thunks.LookupUser = func(name string) (*etcpwdparse.EtcPasswdEntry, error) {
		c05LookedUp = append(c05LookedUp, name)
		return &etcpwdparse.EtcPasswdEntry{}, nil
	}
	name := verifString("requested-user", verifPick("name-len", 1, 2))
	_, err := UserDirectoryFor(name)
	verifAssert(err == nil, "C05: the directory of an existing account is found")
	verifAssert(len(c05LookedUp) == 1, "C05: exactly one account is looked up")
	if len(c05LookedUp) == 1 {
		verifAssertStrEq(c05LookedUp[0], name, "C05: the account looked up is the requested account, byte for byte (no case folding)")
	}
	verifCover("looked-up")
}

// A matching host block is applied with ALL of its settings: whatever a block
// sets overrides what Global (or an earlier block) set, for every setting a
// block can carry - the security-relevant ones included. A block that says
// InsecureSkipVerify = false for one host must win over a Global true.

func c20OptBool(tag string) *bool {
	switch verifPick(tag, 0, 1, 2) {
	case 1:
		v := false
		return &v
	case 2:
		v := true
		return &v
	}
	return nil
}

func c20Pick2(later, earlier *bool) *bool {
	if later != nil {
		return later
	}
	return earlier
}

//verif:prop C20
//verif:bounds Global plus one host block whose pattern matches or does not; one of InsecureSkipVerify, RequestAuthorization, AutoSelfSign, DisableAgent, IsPrincipal absent / false / true in Global and in the block (5 x 9 x 2 combinations; the settings are merged independently of each other)
//verif:cover applied;not-applied
func VH_C20_a_matching_host_block_is_applied_with_all_of_its_settings() {
	var g, b HostConfigOptional
	gv, bv := c20OptBool("global-value"), c20OptBool("block-value")
	which := verifPick("setting", 0, 1, 2, 3, 4)
	names := []string{"InsecureSkipVerify", "RequestAuthorization", "AutoSelfSign", "DisableAgent", "IsPrincipal"}
	field := func(h *HostConfigOptional) **bool {
		switch which {
		case 0:
			return &h.InsecureSkipVerify
		case 1:
			return &h.RequestAuthorization
		case 2:
			return &h.AutoSelfSign
		case 3:
			return &h.DisableAgent
		}
		return &h.IsPrincipal
	}
	*field(&g), *field(&b) = gv, bv
	matches := verifBool("block-matches")
	if matches {
		b.Patterns = []string{"*.example"}
	} else {
		b.Patterns = []string{"other"}
	}
	c := &ClientConfig{Global: g, Hosts: []HostConfigOptional{b}}
	got := *field(c.MatchHost("host.example"))
	want := gv
	if matches {
		verifCover("applied")
		want = c20Pick2(bv, gv)
	} else {
		verifCover("not-applied")
	}
	verifAssert((got == nil) == (want == nil) && (got == nil || *got == *want), "C20: a matching host block's "+names[which]+" setting is applied (what a block sets overrides Global - a block can switch verification back ON for one host)")
}
