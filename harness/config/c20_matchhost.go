package config

// C20 (consequence) — a client applies exactly the host blocks whose patterns
// match the requested host, in order, each once. Patterns are chosen per path
// from {absent, matching, non-matching} for each of <=3 blocks x <=2 patterns
// (real Glob runs on them); CAFiles (appended by MergeWith) is the observable
// log of applied blocks.

func c20Pick(tag string) (string, bool, bool) {
	switch verifU8(tag) % 4 {
	case 0:
		return "", false, false // absent
	case 1:
		return "*.example", true, true
	case 2:
		return "h*st.ex*le", true, true
	default:
		return "other.example", true, false
	}
}

//verif:prop C20
//verif:bounds <=3 host blocks x <=2 patterns, each pattern absent / one of two matching globs / non-matching; host fixed "host.example"; real glob.Glob
//verif:cover none-applied;all-applied;some-applied
func VH_C20_matchhost_applies_exactly_matching_blocks() {
	host := "host.example"
	names := []string{"b0", "b1", "b2"}
	cc := &ClientConfig{}
	cc.Global.CAFiles = []string{"global"}
	nb := int(verifU8("nblocks") % 4)
	var want []string
	want = append(want, "global")
	for i := 0; i < nb; i++ {
		hc := HostConfigOptional{CAFiles: []string{names[i]}}
		applies := false
		for k := 0; k < 2; k++ {
			p, present, matches := c20Pick("pattern")
			if present {
				hc.Patterns = append(hc.Patterns, p)
				if matches {
					applies = true
				}
			}
		}
		cc.Hosts = append(cc.Hosts, hc)
		if applies {
			want = append(want, names[i])
		}
	}
	got := cc.MatchHost(host)
	verifAssert(len(got.CAFiles) == len(want), "C20: MatchHost merges each matching host block exactly once")
	if len(got.CAFiles) == len(want) {
		for i := range want {
			verifAssert(got.CAFiles[i] == want[i], "C20: MatchHost merges the matching host blocks in order")
		}
	}
	switch {
	case len(want) == 1:
		verifCover("none-applied")
	case len(want) == nb+1:
		verifCover("all-applied")
	default:
		verifCover("some-applied")
	}
}
