package authkeys

import (
	"hop.computer/hop/certs"
	"hop.computer/hop/keys"
)

// C01 (authorized-keys policy) / C05 / C07 — the set of trusted client keys.

func c01Run(prop string) {
	s := NewSyncAuthKeySet()
	// ghost: membership of the key we will present
	var probe keys.DHPublicKey
	probe[0] = verifU8("presented-key")
	member := false
	n := verifPick("operations", 0, 1, 2, 3)
	for i := 0; i < n; i++ {
		var k keys.DHPublicKey
		k[0] = verifU8("op-key")
		if verifBool("add") {
			s.AddKey(k)
			member = verifOr(member, k == probe)
		} else {
			s.RemoveKey(k)
			member = verifAnd(member, k != probe)
		}
	}
	leaf := &certs.Certificate{Type: certs.CertificateType(verifU8("cert-type")), PublicKey: probe}
	hasName := verifBool("leaf-has-name")
	if hasName {
		leaf.IDChunk.Blocks = []certs.Name{{Label: []byte("u"), Type: certs.TypeRaw}}
	}
	var opts certs.VerifyOptions
	wantName := verifBool("name-requested")
	if wantName {
		opts.Name = certs.RawStringName("u")
	}
	err := s.VerifyLeaf(leaf, opts)
	formatOK := verifAnd(leaf.Type == certs.Leaf, verifOr(!wantName, hasName))
	verifAssert((err == nil) == verifAnd(formatOK, member), prop+": a client key is accepted by the authorized-keys policy iff the certificate is a well-formed leaf (with the requested name) and the key is CURRENTLY in the set (added and not removed since)")
	if err == nil {
		verifCover("accepted")
	} else if !member {
		verifCover("refused-not-member")
	}
}

//verif:prop C01
//verif:bounds histories of 0..3 AddKey/RemoveKey operations on keys with one symbolic byte, then VerifyLeaf for a certificate with symbolic type, with/without the requested name
//verif:cover accepted;refused-not-member
func VH_C01_authorized_keys_policy_accepts_only_current_members() { c01Run("C01") }

// A grant's key disappears from the transport-layer set once the grant is
// consumed (hopserver removes it): removal must really revoke.
//
//verif:prop C07
//verif:bounds as VH_C01_authorized_keys_policy_accepts_only_current_members
//verif:cover accepted;refused-not-member
func VH_C07_removed_grant_key_is_no_longer_accepted() { c01Run("C07") }
