package tubes

import (
	"io"
	"net"
	"time"

	"github.com/sirupsen/logrus"

	"hop.computer/hop/common"
	"hop.computer/hop/transport"
)

// C09 / C11 — the muxer: identifiers, demultiplexing, robustness of its receive loop.

type c09Conn struct {
	frames  [][]byte
	reads   int
	writes  [][]byte
	offered int // smallest buffer ReadMsg was ever offered (0 = never called)
}

func (c *c09Conn) ReadMsg(b []byte) (int, error) {
	if c.offered == 0 || len(b) < c.offered {
		c.offered = len(b)
	}
	if c.reads >= len(c.frames) {
		return 0, io.EOF
	}
	n := copy(b, c.frames[c.reads])
	c.reads++
	return n, nil
}
func (c *c09Conn) WriteMsg(b []byte) error            { c.writes = append(c.writes, b); return nil }
func (c *c09Conn) Read(p []byte) (int, error)         { return 0, io.EOF }
func (c *c09Conn) Write(p []byte) (int, error)        { return len(p), nil }
func (c *c09Conn) Close() error                       { return nil }
func (c *c09Conn) LocalAddr() net.Addr                { return nil }
func (c *c09Conn) RemoteAddr() net.Addr               { return nil }
func (c *c09Conn) SetDeadline(t time.Time) error      { return nil }
func (c *c09Conn) SetReadDeadline(t time.Time) error  { return nil }
func (c *c09Conn) SetWriteDeadline(t time.Time) error { return nil }

type c09Delivery struct {
	rel   *Reliable
	unrel *Unreliable
	f     *frame
	init  *initiateFrame
}

var c09Log []c09Delivery

func c09RelReceive(r *Reliable, f *frame) error {
	c09Log = append(c09Log, c09Delivery{rel: r, f: f})
	return nil
}
func c09RelReceiveInit(r *Reliable, f *initiateFrame) error {
	c09Log = append(c09Log, c09Delivery{rel: r, init: f})
	return nil
}
func c09UnrelReceive(u *Unreliable, f *frame) error {
	c09Log = append(c09Log, c09Delivery{unrel: u, f: f})
	return nil
}
func c09UnrelReceiveInit(u *Unreliable, f *initiateFrame) error {
	c09Log = append(c09Log, c09Delivery{unrel: u, init: f})
	return nil
}

// pickTubeID: the identifier has the muxer's parity, is free, and is the
// smallest such; out-of-tubes iff none is free.
//
//verif:prop C09
//verif:bounds both parities; the four lowest identifiers of the muxer's parity occupied or free (symbolic), two identifiers of the other parity occupied; reliable or unreliable table; plus the fully occupied table
//verif:cover picked;exhausted
//verif:unwind 400
func VH_C09_picktubeid_smallest_free_with_own_parity() {
	verifTerminationRequired() // the search over at most 128 identifiers must end
	m := &Muxer{reliableTubes: map[byte]*Reliable{}, unreliableTubes: map[byte]*Unreliable{}, log: logrus.NewEntry(logrus.New())}
	m.idParity = byte(verifPick("parity", 0, 1))
	rel := verifBool("reliable")
	occupy := func(id byte) {
		if rel {
			m.reliableTubes[id] = &Reliable{id: id}
		} else {
			m.unreliableTubes[id] = &Unreliable{id: id}
		}
	}
	// the other reliability class and the other parity must not matter
	m.unreliableTubes[m.idParity], m.reliableTubes[m.idParity] = nil, nil
	delete(m.unreliableTubes, m.idParity)
	delete(m.reliableTubes, m.idParity)
	occupy(1 - m.idParity)
	occupy(3 - m.idParity)
	if verifBool("all-occupied") {
		for id := int(m.idParity); id < 256; id += 2 {
			occupy(byte(id))
		}
		_, err := m.pickTubeID(rel)
		verifAssert(err == ErrOutOfTubes, "C09: with every identifier of its parity in use the muxer reports it is out of tubes")
		verifCover("exhausted")
		return
	}
	var used [4]bool
	want := -1
	for i := 3; i >= 0; i-- {
		used[i] = verifBool("occupied")
		if used[i] {
			occupy(m.idParity + byte(2*i))
		} else {
			want = int(m.idParity) + 2*i
		}
	}
	if want < 0 {
		want = int(m.idParity) + 8
	}
	id, err := m.pickTubeID(rel)
	verifAssert(err == nil && int(id) == want, "C09: the identifier picked is the smallest free one with the muxer's own parity (so the two ends never pick the same)")
	verifCover("picked")
}

// The receive loop on peer frames: every delivery goes to the tube with the
// frame's (reliability, identifier); a tube is created exactly for a REQ
// naming a free (reliability, identifier) and offered to Accept once with the
// announced type; a malformed frame is dropped and the loop keeps serving.
//
//verif:prop C09
//verif:replay none
//verif:stub (*hop.computer/hop/tubes.Reliable).receive = c09RelReceive
//verif:stub (*hop.computer/hop/tubes.Reliable).receiveInitiatePkt = c09RelReceiveInit
//verif:stub (*hop.computer/hop/tubes.Unreliable).receive = c09UnrelReceive
//verif:stub (*hop.computer/hop/tubes.Unreliable).receiveInitiatePkt = c09UnrelReceiveInit
//verif:bounds muxer with one reliable and one unreliable tube (symbolic ids), accept queue empty or full (128 waiting); first frame: every header byte symbolic, length field in {0,3,0xFFFF}, 65535-byte buffer; second frame: a valid data frame for the reliable tube; then end of input. Tube objects' own receive functions are recorders
//verif:cover delivered;created;dropped-malformed;ignored-unknown;offer-pending
//verif:timeout 600
func VH_C09_receive_loop_delivers_only_to_the_addressed_tube() { c09Loop("C09") }

//verif:prop C11
//verif:replay none
//verif:stub (*hop.computer/hop/tubes.Reliable).receive = c09RelReceive
//verif:stub (*hop.computer/hop/tubes.Reliable).receiveInitiatePkt = c09RelReceiveInit
//verif:stub (*hop.computer/hop/tubes.Unreliable).receive = c09UnrelReceive
//verif:stub (*hop.computer/hop/tubes.Unreliable).receiveInitiatePkt = c09UnrelReceiveInit
//verif:bounds as VH_C09_receive_loop_delivers_only_to_the_addressed_tube
//verif:cover delivered;created;dropped-malformed;ignored-unknown
//verif:timeout 600
func VH_C11_receive_loop_survives_any_frame_and_keeps_serving() { c09Loop("C11") }

func c09Loop(prop string) {
	c09Log = nil
	conn := &c09Conn{}
	m := newMuxer(conn, 0, verifBool("server"), logrus.NewEntry(logrus.New()))
	a, b := verifU8("reliable-tube-id"), verifU8("unreliable-tube-id")
	ra, ub := &Reliable{id: a}, &Unreliable{id: b}
	m.reliableTubes[a], m.unreliableTubes[b] = ra, ub
	// first frame: arbitrary
	f1 := verifBytes("frame", 64)
	dl := verifPick("length-field", 0, 3, 0xFFFF)
	f1[2], f1[3] = byte(dl>>8), byte(dl)
	// second frame: a plain data frame for the reliable tube
	good := (&frame{tubeID: a, frameNo: 7, dataLength: 2, data: []byte{0xAA, 0xBB}, flags: frameFlags{REL: true}}).toBytes()
	conn.frames = [][]byte{f1, good}
	id, rel, req, resp := f1[0], f1[1]&(1<<RELIdx) != 0, f1[1]&(1<<REQIdx) != 0, f1[1]&(1<<RESPIdx) != 0
	known := verifOr(verifAnd(rel, id == a), verifAnd(!rel, id == b))
	// the acceptor may be slow: the accept queue is empty or full
	prefull := verifBool("accept-queue-full")
	if prefull {
		for len(m.tubeQueue) < cap(m.tubeQueue) {
			m.tubeQueue <- &Reliable{id: 0xEE}
		}
	}
	verifOnBlock(func() {
		if prefull {
			var exists bool
			if rel {
				_, exists = m.reliableTubes[id]
			} else {
				_, exists = m.unreliableTubes[id]
			}
			if conn.reads < 2 {
				// blocked while offering the new tube to the acceptor
				verifCover("offer-pending")
				verifAssert(verifAnd(req, !known), "C09: the receive loop waits for the acceptor only to offer a tube created by a REQ for a free pair")
				return
			}
			verifAssert(verifOr(known, !exists), "C09: a tube that exists for its opener is always offered to Accept (it is never dropped silently when the accept queue is full)")
			return
		}
		// the loop has consumed both frames and the end of input
		verifAssert(conn.reads == 2, "C11: the receive loop keeps reading after any first frame (a malformed frame does not stop the muxer)")
		n := len(c09Log)
		verifAssert(n >= 1, "C11: the frame that follows is still delivered to its tube")
		if n >= 1 {
			last := c09Log[n-1]
			verifAssert(last.rel == ra && last.f != nil && last.f.frameNo == 7, "C11: the frame that follows an arbitrary frame reaches the tube it names")
		}
		for _, d := range c09Log {
			var tid byte
			var trel bool
			if d.rel != nil {
				tid, trel = d.rel.id, true
			} else {
				tid = d.unrel.id
			}
			if d.f != nil {
				verifAssert(tid == d.f.tubeID && trel == d.f.flags.REL, "C09: a frame is delivered only to the tube with its identifier and reliability")
			} else {
				verifAssert(tid == d.init.tubeID && trel == d.init.flags.REL, "C09: an initiate frame is delivered only to the tube with its identifier and reliability")
			}
		}
		created := len(m.tubeQueue)
		if dl == 0xFFFF {
			verifCover("dropped-malformed")
			verifAssert(created == 0 && n == 1, "C11: a frame whose length field exceeds the buffer is dropped without any effect")
			return
		}
		wantCreate := verifAnd(req, !known)
		verifAssert((created == 1) == wantCreate && created <= 1, "C09: a tube is created iff the frame is a REQ for a free (reliability, identifier) pair")
		if created == 1 {
			verifCover("created")
			t := <-m.tubeQueue
			verifAssert(t.GetID() == id && t.IsReliable() == rel && byte(t.Type()) == f1[4], "C09: the tube offered to the acceptor has the identifier, reliability and type its opener chose")
		}
		if known {
			verifCover("delivered")
			verifAssert(n == 2, "C09: a frame for an existing tube is delivered exactly once")
		} else if !req {
			verifCover("ignored-unknown")
			verifAssert(n == 1, "C09: a non-REQ frame for an unknown tube is delivered nowhere")
		}
		_ = resp
	})
	m.receiver()
}

func c09WaitForClose(r *Reliable) {}

// Identifier reuse: a reliable tube this side opened keeps its identifier
// reserved after it closed (until the 4*RTT timer), while a tube the peer
// opened is freed at once; the two ends never free the same identifier early.
//
//verif:prop C09
//verif:replay none
//verif:stub (*hop.computer/hop/tubes.Reliable).WaitForClose = c09WaitForClose
//verif:bounds one closed reliable tube with symbolic identifier on a client or server muxer; the reap timer never fires in the engine
//verif:cover reserved;freed
func VH_C09_closed_tube_id_is_reserved_by_its_opener() {
	log := logrus.NewEntry(logrus.New())
	m := &Muxer{reliableTubes: map[byte]*Reliable{}, unreliableTubes: map[byte]*Unreliable{}, stopped: make(chan struct{}), log: log}
	m.idParity = byte(verifPick("parity", 0, 1))
	id := verifU8("tube-id")
	r := &Reliable{id: id, sender: newSender(log), log: log}
	m.reliableTubes[id] = r
	mine := id%2 == m.idParity
	verifOnBlock(func() {
		// blocked on the reap timer
		verifCover("reserved")
		verifAssert(mine, "C09: only the opener of a tube delays the reuse of its identifier")
		_, still := m.reliableTubes[id]
		verifAssert(still, "C09: while the reap timer runs the identifier stays reserved")
	})
	m.reapTube(r)
	verifCover("freed")
	verifAssert(!mine, "C09: the opener of a reliable tube never frees its identifier before the reap timer (a late packet of the old tube must not reach a new tube with the same identifier)")
	_, still := m.reliableTubes[id]
	verifAssert(!still, "C09: the accepting side frees the identifier when the tube is closed")
}

// Every frame a tube emits names that tube: its identifier and its
// reliability class (the peer demultiplexes on exactly these two).
//
//verif:prop C09
//verif:bounds reliable tube with symbolic id emitting a data frame, an empty ACK, a retransmission and a retransmission acknowledgement; unreliable tube with symbolic id emitting a message of 0..3 bytes
//verif:cover reliable;unreliable
func VH_C09_emitted_frames_name_their_tube() {
	log := logrus.NewEntry(logrus.New())
	id := verifU8("tube-id")
	if verifBool("reliable") {
		r := &Reliable{id: id, recvWindow: newReceiver(log), sender: newSender(log), sendQueue: make(chan []byte, 8), prioritySendQueue: make(chan []byte, 8), log: log}
		switch verifPick("emit", 0, 1, 2, 3) {
		case 0:
			r.sendOneFrame(&frame{frameNo: 5, dataLength: 1, data: []byte{1}}, false)
		case 1:
			r.sendOneFrame(&frame{frameNo: 5, data: []byte{}}, false)
		case 2:
			r.sendOneFrame(&frame{frameNo: 5, dataLength: 1, data: []byte{1}}, true)
		case 3:
			r.sendRetransmissionAck(verifU32("frame"), verifU32("ack"), r.id)
		}
		var raw []byte
		select {
		case raw = <-r.sendQueue:
		case raw = <-r.prioritySendQueue:
		}
		f, err := fromBytes(append(raw, make([]byte, 16)...))
		verifAssert(err == nil, "C09: an emitted frame decodes")
		if err == nil {
			verifAssert(f.tubeID == id && f.flags.REL, "C09: every frame of a reliable tube carries its identifier and the reliable flag")
		}
		verifCover("reliable")
		return
	}
	u := &Unreliable{id: id, send: newDC(4), initiated: make(chan struct{}), closed: make(chan struct{}), log: log}
	close(u.initiated)
	u.state.Store(initiated)
	n := verifPick("len", 0, 1, 3)
	msg := verifBytes("message", n)
	wrote, _, err := u.WriteMsgUDP(msg, nil, nil)
	verifAssert(err == nil && wrote == n, "C09: an unreliable write of a small message succeeds")
	raw := <-u.send.C
	f, err := fromBytes(append(raw, make([]byte, 16)...))
	verifAssert(err == nil, "C09: an emitted frame decodes")
	if err == nil {
		verifAssert(f.tubeID == id && !f.flags.REL, "C09: every frame of an unreliable tube carries its identifier and no reliable flag")
	}
	verifCover("unreliable")
}

// Unreliable tubes deliver whole messages or nothing: what WriteMsgUDP accepts
// is, after framing and decoding, exactly what ReadMsgUDP returns.
//
//verif:prop C09
//verif:bounds message length picked from {0,1,100,32768,32769,65535,65536,70000}, bytes symbolic; sender-side framing -> wire bytes -> fromBytes -> receive -> ReadMsgUDP on the peer's tube with the same identifier
//verif:cover delivered;refused
//verif:timeout 600
func VH_C09_unreliable_write_then_read_is_identity_or_refusal() {
	log := logrus.NewEntry(logrus.New())
	id := verifU8("tube-id")
	u := &Unreliable{id: id, send: newDC(4), initiated: make(chan struct{}), closed: make(chan struct{}), log: log}
	close(u.initiated)
	u.state.Store(initiated)
	n := verifPick("len", 0, 1, 100, 32768, 32769, 65535, 65536, 70000)
	msg := verifBytes("message", n)
	wrote, _, err := u.WriteMsgUDP(msg, nil, nil)
	if err != nil {
		verifCover("refused")
		verifAssert(len(u.send.C) == 0, "C09: a refused message puts nothing on the wire")
		return
	}
	verifAssert(wrote == n, "C09: an accepted message is accepted whole")
	raw := <-u.send.C
	// the peer: its muxer reads the datagram into the 65535-byte buffer and decodes it
	if len(raw) > 65535 {
		verifAssert(false, "C09: an accepted message must fit one datagram (it would otherwise be cut or dropped below)")
		return
	}
	buf := verifBytes("peer-read-buffer", 65535)
	copy(buf, raw)
	f, derr := fromBytes(buf)
	verifAssert(derr == nil, "C09: the frame of an accepted message decodes at the peer")
	if derr != nil {
		return
	}
	p := &Unreliable{id: id, recv: newDC(4), initiated: make(chan struct{}), closed: make(chan struct{}), log: log}
	close(p.initiated)
	p.state.Store(initiated)
	verifAssert(p.receive(f) == nil, "C09: the peer's tube takes the frame")
	out := make([]byte, 70000)
	got, _, _, _, rerr := p.ReadMsgUDP(out, nil)
	verifAssert(rerr == nil && got == n, "C09: the reader gets one message of exactly the written length (never a fragment, a merge or an empty stand-in)")
	if rerr == nil && got == n {
		verifAssertBytesEq(out[:got], msg, "C09: the message read is the message written")
	}
	verifCover("delivered")
}

func newDC(n int) *common.DeadlineChan[[]byte] { return common.NewDeadlineChan[[]byte](n) }

// Creating tubes: a new tube's identifier is free in ITS OWN class's table (the
// reliable and the unreliable identifier spaces are separate), so two tubes
// opened one after the other never share (reliability, identifier), and the
// new tube is registered under the identifier it carries.
//
//verif:prop C09
//verif:bounds client or server muxer; reliable table and unreliable table each with the two lowest own-parity identifiers occupied or free (symbolic); then two consecutive creates of the same or of different classes
//verif:cover reliable-then-reliable;unreliable-then-unreliable;mixed
func VH_C09_created_tubes_get_distinct_ids_within_their_class() {
	conn := &c09Conn{}
	m := newMuxer(conn, 0, verifBool("server"), logrus.NewEntry(logrus.New()))
	p := m.idParity
	for i := 0; i < 2; i++ {
		if verifBool("reliable-id-occupied") {
			m.reliableTubes[p+byte(2*i)] = &Reliable{id: p + byte(2*i)}
		}
		if verifBool("unreliable-id-occupied") {
			m.unreliableTubes[p+byte(2*i)] = &Unreliable{id: p + byte(2*i)}
		}
	}
	relBefore, unrelBefore := len(m.reliableTubes), len(m.unreliableTubes)
	firstRel, secondRel := verifBool("first-reliable"), verifBool("second-reliable")
	create := func(rel bool) (byte, bool) {
		if rel {
			_, taken := m.reliableTubes[0]
			_ = taken
			t, err := m.CreateReliableTube(TubeType(1))
			verifAssert(err == nil, "C09: a reliable tube can be created while identifiers are free")
			if err != nil {
				return 0, false
			}
			verifAssert(m.reliableTubes[t.id] == t, "C09: a new reliable tube is registered under the identifier it carries")
			return t.id, true
		}
		t, err := m.CreateUnreliableTube(TubeType(1))
		verifAssert(err == nil, "C09: an unreliable tube can be created while identifiers are free")
		if err != nil {
			return 0, false
		}
		verifAssert(m.unreliableTubes[t.id] == t, "C09: a new unreliable tube is registered under the identifier it carries")
		return t.id, true
	}
	id1, ok1 := create(firstRel)
	id2, ok2 := create(secondRel)
	if !ok1 || !ok2 {
		return
	}
	verifAssert(id1%2 == p && id2%2 == p, "C09: created tubes carry the muxer's own parity")
	nRel, nUnrel := 0, 0
	if firstRel {
		nRel++
	} else {
		nUnrel++
	}
	if secondRel {
		nRel++
	} else {
		nUnrel++
	}
	verifAssert(len(m.reliableTubes) == relBefore+nRel && len(m.unreliableTubes) == unrelBefore+nUnrel, "C09: every created tube occupies a fresh slot of its own class (no existing tube is replaced)")
	if firstRel == secondRel {
		verifAssert(id1 != id2, "C09: two tubes of the same class opened one after the other get distinct identifiers")
	}
	switch {
	case firstRel && secondRel:
		verifCover("reliable-then-reliable")
	case !firstRel && !secondRel:
		verifCover("unreliable-then-unreliable")
	default:
		verifCover("mixed")
	}
}

// Unreliable.receive is called from the muxer's only receive goroutine with a
// peer-controlled frame: it must return in every state - full queue, FIN,
// closed tube - or every other tube starves and Stop can never finish.
//
//verif:prop C11
//verif:bounds unreliable tube in state created / initiated / closed, receive queue (capacity 2) empty, partly filled or full; frame with symbolic flags and 0..2 data bytes
//verif:cover returned
func VH_C11_unreliable_receive_never_blocks_the_receive_loop() {
	log := logrus.NewEntry(logrus.New())
	u := &Unreliable{id: verifU8("tube-id"), recv: newDC(2), send: newDC(2), initiated: make(chan struct{}), closed: make(chan struct{}), log: log}
	u.state.Store(state(verifPick("tube-state", int(created), int(initiated), int(closed))))
	fill := verifPick("queued", 0, 1, 2)
	for i := 0; i < fill; i++ {
		u.recv.C <- []byte{1}
	}
	n := verifPick("datalen", 0, 2)
	f := &frame{tubeID: u.id, flags: metaToFlags(verifU8("flags")), dataLength: uint16(n), data: verifBytes("data", n), frameNo: verifU32("frameNo")}
	verifBlockingIsViolation()
	_ = u.receive(f)
	verifCover("returned")
}

// A frame waiting in a tube (reorder heap, receive queue) keeps its own bytes
// while the muxer reuses its single receive buffer for the following packets -
// of ANY tube: otherwise a late frame delivers another tube's bytes.
//
//verif:prop C09
//verif:bounds as VH_C08_decoded_frame_payload_is_a_private_copy
//verif:cover checked
func VH_C09_queued_frames_never_pick_up_another_tubes_bytes() {
	VH_C08_decoded_frame_payload_is_a_private_copy()
}

// A peer can take every identifier of this side's parity (remotely requested
// identifiers are not parity-checked): creating a tube must then FAIL, not
// search forever while holding the muxer's lock.
//
//verif:prop C11
//verif:bounds as VH_C09_picktubeid_smallest_free_with_own_parity; exceeding 400 loop iterations is a violation (termination required)
//verif:cover picked;exhausted
//verif:unwind 400
func VH_C11_picktubeid_terminates_when_every_identifier_is_taken() {
	VH_C09_picktubeid_smallest_free_with_own_parity()
}

// The muxer must be able to take in the largest message the transport can
// deliver: a smaller receive buffer turns one legal (if useless) peer message
// into a permanent read error that stops every tube.
//
//verif:prop C11
//verif:replay none
//verif:bounds client or server muxer as built by newMuxer; the receive loop is run against a connection that records the size of the buffer it is offered
//verif:cover offered
func VH_C11_receive_buffer_holds_the_largest_transport_message() {
	conn := &c09Conn{}
	m := newMuxer(conn, 0, verifBool("server"), logrus.NewEntry(logrus.New()))
	check := func() {
		verifCover("offered")
		verifAssert(conn.offered >= transport.MaxPlaintextSize, "C11: the muxer offers the transport a receive buffer that holds its largest message (MaxPlaintextSize)")
	}
	verifOnBlock(check)
	m.receiver()
	check()
}

// C08: the quarantine of a closed tube's identifier falls on the side that
// OPENED it (the one that would reuse it): freed too early, the peer's old tube
// - still waiting for its last acknowledgement - answers the new tube's frames
// with the old stream's numbers and the new stream can never be delivered.
//
//verif:prop C08
//verif:replay none
//verif:stub (*hop.computer/hop/tubes.Reliable).WaitForClose = c09WaitForClose
//verif:bounds as VH_C09_closed_tube_id_is_reserved_by_its_opener
//verif:cover reserved;freed
func VH_C08_closed_tube_identifier_is_quarantined_by_its_opener() {
	VH_C09_closed_tube_id_is_reserved_by_its_opener()
}
