package tubes

import (
	"net"

	"github.com/sirupsen/logrus"
)

// C09 — "concurrently created tubes get distinct identifiers", for two creators
// on ONE muxer. The engine is sequential; the second creation is scripted into
// the first one's call of the connection's LocalAddr, which lies between picking
// the identifier and registering the tube. On the tree as it is that switch ends
// blocked on the muxer lock (= the creations are serialised; not counted) and
// the sequential schedule is checked as well.

type c09SwitchConn struct {
	c09Conn
	m        *Muxer
	overlap  bool
	reliable bool
	ran      bool
	id2      byte
	err2     error
}

func (c *c09SwitchConn) second() {
	c.ran = true
	if c.reliable {
		t, err := c.m.CreateReliableTube(TubeType(1))
		c.err2 = err
		if err == nil {
			c.id2 = t.id
		}
		return
	}
	t, err := c.m.CreateUnreliableTube(TubeType(1))
	c.err2 = err
	if err == nil {
		c.id2 = t.id
	}
}

func (c *c09SwitchConn) LocalAddr() net.Addr {
	if c.overlap && !c.ran && c.m != nil {
		verifCover("second-creation-scheduled-inside-the-first")
		c.second()
	}
	return nil
}

//verif:prop C09
//verif:replay none
//verif:bounds client or server muxer with no tubes; two creations of the same class (both reliable or both unreliable), the second after the first or scripted into the first one's LocalAddr call between identifier choice and registration; a switch that ends blocked on the muxer lock is serialisation and not counted; one scripted switch, not all interleavings
//verif:cover second-creation-scheduled-inside-the-first;checked
func VH_C09_overlapping_creations_get_distinct_identifiers() {
	conn := &c09SwitchConn{overlap: verifBool("second-creation-overlaps"), reliable: verifBool("reliable")}
	m := newMuxer(conn, 0, verifBool("server"), logrus.NewEntry(logrus.New()))
	conn.m = m
	var id1 byte
	var err1 error
	if conn.reliable {
		t, err := m.CreateReliableTube(TubeType(1))
		err1 = err
		if err == nil {
			id1 = t.id
		}
	} else {
		t, err := m.CreateUnreliableTube(TubeType(1))
		err1 = err
		if err == nil {
			id1 = t.id
		}
	}
	if !conn.ran {
		conn.second()
	}
	verifCover("checked")
	verifAssert(err1 == nil && conn.err2 == nil, "C09: both creations succeed while identifiers are free")
	verifAssert(id1 != conn.id2, "C09: two tubes created on one muxer get distinct identifiers, however the two creations overlap")
	if conn.reliable {
		verifAssert(len(m.reliableTubes) == 2, "C09: both tubes are registered")
	} else {
		verifAssert(len(m.unreliableTubes) == 2, "C09: both tubes are registered")
	}
}
