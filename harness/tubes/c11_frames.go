package tubes

// C11 / C18 — tube frame codec on peer-controlled bytes.

// fromBytes on the muxer's real receive buffer (65535 bytes, every byte
// symbolic, stale contents included): must not panic, and the frame it returns
// must re-encode to the same header and carry exactly the announced data.
//
//verif:prop C11
//verif:bounds the muxer's 65535-byte read buffer, every byte symbolic (covers every flag combination, tube id, 16-bit length, ack and frame number)
//verif:cover decoded
func VH_C11_fromBytes_total() {
	buf := verifBytes("datagram", 65535)
	f, err := fromBytes(buf)
	if err != nil {
		return
	}
	verifCover("decoded")
	verifAssert(int(f.dataLength) == len(f.data), "C11: decoded frame carries exactly the announced number of data bytes")
	// what the receiver loop does next for unknown tubes / REQ / RESP frames
	init := fromInitiateBytes(f.toBytes())
	verifAssert(init.tubeID == f.tubeID, "C11: initiate view keeps the tube id")
}

// The datagram handed up by the transport may be shorter than the buffer, but
// readMsg ignores the length: the same decode must be safe for a buffer whose
// first n bytes are the datagram and the rest is arbitrary stale data -- that is
// exactly the harness above. This one covers short buffers directly, as used
// by other callers of fromBytes in the package (none today; guards a refactor).
//
//verif:prop C11
//verif:tier thorough
//verif:bounds buffer length 12..64 symbolic, bytes symbolic
func VH_C11_fromBytes_short_buffers() {
	n := verifInt("len")
	verifAssume(n >= 12 && n <= 64)
	buf := verifBytes("datagram", n)
	dl := int(buf[2])<<8 | int(buf[3])
	verifAssume(12+dl <= n)
	f, _ := fromBytes(buf)
	verifAssert(len(f.data) == dl, "C11: short buffer decode keeps the data length")
}
