package tubes

// C18 — tube frames round-trip.

func c18Flags() frameFlags {
	return frameFlags{REQ: verifBool("REQ"), RESP: verifBool("RESP"), REL: verifBool("REL"), ACK: verifBool("ACK"), FIN: verifBool("FIN"), RTR: verifBool("RTR")}
}

func c18FlagsEq(a, b frameFlags) bool {
	return verifAnd(verifAnd(verifAnd(a.REQ == b.REQ, a.RESP == b.RESP), verifAnd(a.REL == b.REL, a.ACK == b.ACK)), verifAnd(a.FIN == b.FIN, a.RTR == b.RTR))
}

// decode(encode(f)) == f for every frame the constructors can build
// (dataLength == len(data) <= 65535-12).
//
//verif:prop C18
//verif:bounds all header fields symbolic; data length symbolic 0..65523 with symbolic bytes (rope); validity predicate dataLength == len(data)
//verif:cover roundtrip
func VH_C18_frame_roundtrip() {
	n := verifInt("datalen")
	verifAssume(n >= 0 && n <= 65535-12)
	f := &frame{
		ackNo: verifU32("ackNo"), frameNo: verifU32("frameNo"), dataLength: uint16(n),
		flags: c18Flags(), tubeID: verifU8("tubeID"), data: verifBytes("data", n),
	}
	wire := f.toBytes()
	verifAssert(len(wire) == 12+n, "C18: frame encoding has header plus data length")
	g, err := fromBytes(wire)
	verifAssert(err == nil, "C18: frame encoding decodes")
	if err != nil {
		return
	}
	verifCover("roundtrip")
	verifAssert(g.ackNo == f.ackNo, "C18: frame ackNo round-trips")
	verifAssert(g.frameNo == f.frameNo, "C18: frame frameNo round-trips")
	verifAssert(g.dataLength == f.dataLength, "C18: frame dataLength round-trips")
	verifAssert(g.tubeID == f.tubeID, "C18: frame tubeID round-trips")
	verifAssert(c18FlagsEq(g.flags, f.flags), "C18: frame flags round-trip")
	verifAssert(len(g.data) == n, "C18: frame data length round-trips")
	i := verifInt("probe")
	verifAssume(i >= 0 && i < n)
	verifAssert(g.data[i] == f.data[i], "C18: frame data bytes round-trip")
}

//verif:prop C18
//verif:bounds all header fields symbolic incl. all 256 tube-type values; data length symbolic 0..65525
//verif:cover roundtrip
func VH_C18_initiate_frame_roundtrip() {
	n := verifInt("datalen")
	verifAssume(n >= 0 && n <= 65535-10)
	f := &initiateFrame{
		frameNo: verifU32("frameNo"), tubeID: verifU8("tubeID"), tubeType: TubeType(verifU8("tubeType")),
		data: verifBytes("data", n), dataLength: uint16(n), flags: c18Flags(),
	}
	wire := f.toBytes()
	verifAssert(len(wire) == 10+n, "C18: initiate frame encoding has header plus data length")
	g := fromInitiateBytes(wire)
	verifCover("roundtrip")
	verifAssert(g.frameNo == f.frameNo, "C18: initiate frameNo round-trips")
	verifAssert(g.tubeID == f.tubeID, "C18: initiate tubeID round-trips")
	verifAssert(g.tubeType == f.tubeType, "C18: initiate tubeType round-trips")
	verifAssert(g.dataLength == f.dataLength, "C18: initiate dataLength round-trips")
	verifAssert(c18FlagsEq(g.flags, f.flags), "C18: initiate flags round-trip")
	verifAssert(len(g.data) == n, "C18: initiate data length round-trips")
	i := verifInt("probe")
	verifAssume(i >= 0 && i < n)
	verifAssert(g.data[i] == f.data[i], "C18: initiate data bytes round-trip")
}

// Flag byte: metaToFlags(flagsToMetaByte(f)) == f and the reverse on the six
// defined bits; the two undefined bits are ignored on decode.
//
//verif:prop C18
//verif:bounds all 64 flag combinations and all 256 meta bytes (symbolic)
func VH_C18_flags_roundtrip() {
	f := c18Flags()
	verifAssert(c18FlagsEq(metaToFlags(flagsToMetaByte(&f)), f), "C18: flags -> byte -> flags is the identity")
	b := verifU8("meta")
	fl := metaToFlags(b)
	verifAssert(flagsToMetaByte(&fl) == b&0x3f, "C18: byte -> flags -> byte keeps the six defined bits")
}
