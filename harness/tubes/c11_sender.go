package tubes

import (
	"time"

	"github.com/sirupsen/logrus"
)

// C11 — acknowledgement handling on peer-controlled numbers.

// c11Sender builds a sender holding k unacknowledged frames in a state that
// satisfies the sender invariant (frames[i].frameNo == uint32(ackNo)+i,
// frameNo == uint32(ackNo)+k); everything else is symbolic.
func c11Sender(k int) *sender {
	s := newSender(logrus.NewEntry(logrus.New()))
	ack := verifU64("ackNo")
	verifAssume(ack >= 1 && ack < 1<<33)
	s.ackNo = ack
	s.frameNo = uint32(ack) + uint32(k)
	s.unacked = uint16(verifU8("unacked") % 8)
	s.senderWindow.windowSize = verifU16("windowSize")
	s.senderWindow.state = controlState(verifU8("ccstate") % 3)
	s.senderWindow.duplicatedAckCounter = int(verifU8("dupacks"))
	s.senderWindow.ssThresh = verifU16("ssThresh")
	for i := 0; i < k; i++ {
		f := &frame{frameNo: uint32(ack) + uint32(i), dataLength: verifU16("dataLength")}
		f.flags.RTR = verifBool("rtr")
		var t time.Time
		if verifBool("sent") {
			t = time.Unix(1700000000, 0)
		}
		s.frames = append(s.frames, struct {
			*frame
			time.Time
		}{f, t})
	}
	return s
}

// recvAck with an arbitrary 32-bit acknowledgement number, from a sender
// holding 0..3 unacknowledged frames: no panic, and afterwards the frames held
// are still exactly the unacknowledged suffix.
//
//verif:prop C11
//verif:bounds 0..3 unacknowledged frames, ackNo symbolic in [1,2^33), acknowledgement symbolic over all 2^32 values, window/congestion state symbolic; congestion arithmetic is floating point (havoc)
//verif:cover acked-some;acked-none
//verif:unwind 40
//verif:tier thorough
//verif:timeout 600
func VH_C11_recvAck_any_number_3frames() { c11RecvAck(3) }

//verif:prop C11
//verif:bounds as the 3-frame variant with 0..2 unacknowledged frames
//verif:cover acked-some;acked-none
//verif:unwind 40
//verif:tier quick
func VH_C11_recvAck_any_number() { c11RecvAck(2) }

func c11RecvAck(maxK int) {
	k := verifPick("frames", 0, 1, 2, 3)
	verifAssume(k <= maxK)
	s := c11Sender(k)
	oldAck := s.ackNo
	a := verifU32("ack")
	_, err := s.recvAck(a)
	if err != nil {
		return
	}
	if s.ackNo > oldAck {
		verifCover("acked-some")
	} else {
		verifCover("acked-none")
	}
	verifAssert(s.ackNo >= oldAck, "C11/C08: acknowledgement number never moves backwards")
	verifAssert(s.ackNo-oldAck <= uint64(k), "C11/C08: an acknowledgement never releases more frames than were sent")
	verifAssert(len(s.frames) == k-int(s.ackNo-oldAck), "C11/C08: frames held are the unacknowledged suffix")
	if len(s.frames) > 0 {
		verifAssert(s.frames[0].frameNo == uint32(s.ackNo), "C11/C08: first held frame is the next one to acknowledge")
	}
}
