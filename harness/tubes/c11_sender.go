package tubes

import (
	"time"

	"github.com/sirupsen/logrus"
)

// C11 — acknowledgement handling on peer-controlled numbers.

// c11Sender builds a sender holding k unacknowledged frames in a state that
// satisfies the sender invariant (frames[i].frameNo == uint32(ackNo)+i,
// frameNo == uint32(ackNo)+k); everything else is symbolic.
func c11Sender(k int) *sender {
	s := newSender(logrus.NewEntry(logrus.New()))
	ack := verifU64("ackNo")
	verifAssume(ack >= 1 && ack < 1<<33)
	s.ackNo = ack
	s.frameNo = uint32(ack) + uint32(k)
	s.unacked = uint16(verifU8("unacked") % 8)
	s.senderWindow.windowSize = verifU16("windowSize")
	s.senderWindow.state = controlState(verifU8("ccstate") % 3)
	s.senderWindow.duplicatedAckCounter = int(verifU8("dupacks"))
	s.senderWindow.ssThresh = verifU16("ssThresh")
	for i := 0; i < k; i++ {
		f := &frame{frameNo: uint32(ack) + uint32(i), dataLength: verifU16("dataLength")}
		f.flags.RTR = verifBool("rtr")
		var t time.Time
		if verifBool("sent") {
			t = time.Unix(1700000000, 0)
		}
		s.frames = append(s.frames, struct {
			*frame
			time.Time
		}{f, t})
	}
	return s
}

// recvAck with an arbitrary 32-bit acknowledgement number, from a sender
// holding 0..3 unacknowledged frames: no panic, and afterwards the frames held
// are still exactly the unacknowledged suffix.
//
//verif:prop C11
//verif:bounds 0..3 unacknowledged frames, ackNo symbolic in [1,2^33), acknowledgement symbolic over all 2^32 values, window/congestion state symbolic; congestion arithmetic is floating point (havoc)
//verif:cover acked-some;acked-none
//verif:unwind 40
//verif:tier thorough
//verif:timeout 600
func VH_C11_recvAck_any_number_3frames() { c11RecvAck(3) }

//verif:prop C11
//verif:bounds as the 3-frame variant with 0..2 unacknowledged frames
//verif:cover acked-some;acked-none
//verif:unwind 40
//verif:tier quick
func VH_C11_recvAck_any_number() { c11RecvAck(2) }

func c11RecvAck(maxK int) {
	k := verifPick("frames", 0, 1, 2, 3)
	verifAssume(k <= maxK)
	s := c11Sender(k)
	oldAck := s.ackNo
	a := verifU32("ack")
	_, err := s.recvAck(a)
	if err != nil {
		return
	}
	if s.ackNo > oldAck {
		verifCover("acked-some")
	} else {
		verifCover("acked-none")
	}
	verifAssert(s.ackNo >= oldAck, "C11/C08: acknowledgement number never moves backwards")
	if s.ackNo > oldAck {
		verifAssert(s.senderWindow.duplicatedAckCounter == 0, "C08: an acknowledgement of new data resets the duplicate-acknowledgement counter (duplicated ACKs on a healthy link must not add up until the tube gives up)")
	}
	verifAssert(s.ackNo-oldAck <= uint64(k), "C11/C08: an acknowledgement never releases more frames than were sent")
	verifAssert(len(s.frames) == k-int(s.ackNo-oldAck), "C11/C08: frames held are the unacknowledged suffix")
	if len(s.frames) > 0 {
		verifAssert(s.frames[0].frameNo == uint32(s.ackNo), "C11/C08: first held frame is the next one to acknowledge")
	}
}

// Reliable.receive on ANY frame in ANY tube state: returns without panicking.
//
//verif:prop C11
//verif:bounds tube state over all 8 values; sender with 0..2 unacknowledged frames (invariant), receiver window start symbolic with 0..1 queued fragment; frame: every header field symbolic (all 64 flag combinations, any ack / frame number), data of 0, 1 or 3 bytes
//verif:cover returned
//verif:unwind 40
//verif:timeout 3000
//verif:tier thorough
func VH_C11_reliable_receive_any_frame_any_state_2frames() { c11ReceiveAny(2, true) }

//verif:prop C11
//verif:bounds as the 2-frame variant restricted to tube states {initiated, finWait1, lastAck, closed}, 0..1 unacknowledged frames, no queued fragment, data of 0 or 1 bytes
//verif:cover returned
//verif:unwind 40
//verif:timeout 900
//verif:tier quick
func VH_C11_reliable_receive_any_frame_any_state() { c11ReceiveAny(1, false) }

func c11ReceiveAny(maxK int, full bool) {
	log := logrus.NewEntry(logrus.New())
	k := verifPick("frames", 0, 1, 2)
	verifAssume(k <= maxK)
	// congestion state concrete here (its arithmetic is explored by VH_C11_recvAck_any_number)
	snd := newSender(log)
	ack := verifU64("sender-ackNo")
	verifAssume(ack >= 1 && ack < 1<<33)
	snd.ackNo, snd.frameNo = ack, uint32(ack)+uint32(k)
	for i := 0; i < k; i++ {
		snd.frames = append(snd.frames, struct {
			*frame
			time.Time
		}{&frame{frameNo: uint32(ack) + uint32(i), dataLength: 1, data: []byte{7}}, time.Time{}})
	}
	r := &Reliable{id: verifU8("tube-id"), sender: snd, recvWindow: newReceiver(log), closed: make(chan struct{}), initRecv: make(chan struct{}), initDone: make(chan struct{}), sendDone: make(chan struct{}), sendQueue: make(chan []byte, 64), prioritySendQueue: make(chan []byte, 64), log: log}
	close(r.sendDone)
	r.sender.closed.Store(false)
	st := verifPick("tube-state", int(created), int(initiated), int(closeWait), int(lastAck), int(finWait1), int(finWait2), int(closing), int(closed))
	verifAssume(full || st == int(initiated) || st == int(finWait1) || st == int(lastAck) || st == int(closed))
	r.tubeState = state(st)
	ws := verifU64("windowStart")
	verifAssume(ws >= 1 && ws < 1<<40)
	r.recvWindow.windowStart, r.recvWindow.ackNo = ws, ws-1
	if full && verifBool("queued-fragment") {
		r.recvWindow.fragments = append(r.recvWindow.fragments, &pqItem{value: []byte{9}, priority: ws + 2})
	}
	n := verifPick("datalen", 0, 1, 3)
	verifAssume(full || n <= 1)
	f := &frame{ackNo: verifU32("ackNo"), frameNo: verifU32("frameNo"), dataLength: uint16(n), flags: metaToFlags(verifU8("flags")), tubeID: r.id, data: verifBytes("data", n)}
	_ = r.receive(f)
	verifCover("returned")
}

// receiveInitiatePkt on any initiate frame in any tube state.
//
//verif:prop C11
//verif:bounds tube state over all 8 values; initiate frame with symbolic flags, type, frame number and 0..3 data bytes
//verif:cover returned
//verif:timeout 600
func VH_C11_reliable_receive_initiate_any_frame_any_state() {
	log := logrus.NewEntry(logrus.New())
	r := &Reliable{id: verifU8("tube-id"), sender: newSender(log), recvWindow: newReceiver(log), closed: make(chan struct{}), initRecv: make(chan struct{}), initDone: make(chan struct{}), sendDone: make(chan struct{}), sendQueue: make(chan []byte, 64), prioritySendQueue: make(chan []byte, 64), log: log}
	close(r.sendDone)
	r.tubeState = state(verifPick("tube-state", int(created), int(initiated), int(closeWait), int(lastAck), int(finWait1), int(finWait2), int(closing), int(closed)))
	if r.tubeState != created {
		close(r.initRecv) // invariant: the initiation signal is published exactly when the tube leaves "created"
	}
	n := verifPick("datalen", 0, 3)
	f := &initiateFrame{frameNo: verifU32("frameNo"), tubeID: r.id, tubeType: TubeType(verifU8("type")), data: verifBytes("data", n), dataLength: uint16(n), flags: metaToFlags(verifU8("flags"))}
	before := len(r.sendQueue)
	_ = r.receiveInitiatePkt(f)
	verifCover("returned")
	// C08: the opener retransmits its REQ until it sees a RESP. As long as this
	// end's tube is not closed - it may already have written and half-closed -
	// every REQ must be answered, or the opener stays in "created" for ever and
	// nothing written here is ever readable.
	if f.flags.REQ && r.tubeState != closed {
		verifAssert(len(r.sendQueue) == before+1, "C08: a (retransmitted) tube request is answered with a response in every state but closed")
		if len(r.sendQueue) == before+1 {
			raw := <-r.sendQueue
			g := fromInitiateBytes(append(raw, make([]byte, 16)...))
			verifAssert(verifAnd(g.flags.RESP, verifAnd(!g.flags.REQ, g.tubeID == r.id)), "C08: the answer to a tube request is a response frame for this tube")
		}
		verifCover("answered")
	}
}

//verif:prop C08
//verif:bounds as VH_C11_reliable_receive_initiate_any_frame_any_state
//verif:cover returned;answered
//verif:timeout 600
func VH_C08_every_tube_request_is_answered_until_the_tube_is_closed() {
	VH_C11_reliable_receive_initiate_any_frame_any_state()
}
