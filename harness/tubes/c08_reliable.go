package tubes

import (
	"container/heap"
	"time"

	"github.com/sirupsen/logrus"
)

// C08 — reliable tubes: the safety core (ordered, intact, nothing invented).

// unwrapFrameNo recovers the true 64-bit frame number from its low 32 bits
// whenever the true number is within 2^31 of the current acknowledgement number.
//
//verif:prop C08
//verif:bounds ackNo symbolic in [0, 2^62), true frame number k symbolic with |k - ackNo| < 2^31
//verif:cover below;above
func VH_C08_unwrap_recovers_true_frame_number() {
	r := &receiver{}
	r.ackNo = verifU64("ackNo")
	verifAssume(r.ackNo < 1<<62)
	k := verifU64("k")
	verifAssume(k < 1<<62)
	var dist uint64
	if k >= r.ackNo {
		dist = k - r.ackNo
		verifCover("above")
	} else {
		dist = r.ackNo - k
		verifCover("below")
	}
	verifAssume(dist < 1<<31)
	verifAssert(r.unwrapFrameNo(uint32(k)) == k, "C08: a frame number within 2^31 of the acknowledgement number is unwrapped to its true value")
}

//verif:prop C08
//verif:bounds window start / end / frame number symbolic (64 bit)
func VH_C08_frame_in_bounds_is_interval_membership() {
	ws, we, f := verifU64("ws"), verifU64("we"), verifU64("f")
	got := frameInBounds(ws, we, f)
	var want bool
	if ws < we {
		want = verifAnd(f >= ws, f <= we)
	} else {
		want = verifOr(f >= ws, f <= we)
	}
	verifAssert(got == want, "C08: frameInBounds is membership in the (possibly wrapped) window interval")
}

// c08D is the ghost stream: frame k of the sender carries the byte D(k).
func c08D(k uint64) byte { return verifUF8("D", k) }

// One receiver step (inductive): from a state whose buffer holds the stream up
// to windowStart-1 and whose queue holds genuine sender frames beyond it, one
// arriving frame (a copy of ANY sender frame: old duplicate, the next one, or
// one ahead) extends the buffer by exactly the next in-order frames, reports
// end-of-stream only once the FIN frame itself was reached in order, and keeps
// the invariant.
//
//verif:prop C08
//verif:replay none
//verif:bounds windowStart symbolic in [1,2^40); 0..2 queued fragments at windowStart+1..+4 (duplicates allowed); arriving frame at windowStart-2..+5, each data frame carries one ghost byte D(k), the FIN frame F (symbolic) carries none; no frame beyond F exists
//verif:cover delivered-some;delivered-none;fin-consumed;duplicate-dropped
//verif:timeout 600
func VH_C08_receiver_step_delivers_in_order_prefix() { c08ReceiverStep(2) }

func c08ReceiverStep(maxQueued int) {
	r := newReceiver(logrus.NewEntry(logrus.New()))
	ws := verifU64("windowStart")
	verifAssume(ws >= 3 && ws < 1<<40)
	r.windowStart, r.ackNo = ws, ws-1
	F := verifU64("fin-frame")
	verifAssume(F >= ws)
	var have [8]bool // have[i]: frame ws+i is available after this step
	q := verifPick("queued", 0, 1, 2, 3)
	verifAssume(q <= maxQueued)
	for i := 0; i < q; i++ {
		d := verifPick("queued-offset", 1, 2, 3, 4)
		p := ws + uint64(d)
		verifAssume(p <= F)
		it := &pqItem{priority: p, FIN: p == F}
		if p != F {
			it.value = []byte{c08D(p)}
		}
		heap.Push(&r.fragments, it)
		have[d] = true
	}
	e := verifPick("arriving-offset", -2, -1, 0, 1, 2, 5)
	k := uint64(int64(ws) + int64(e))
	verifAssume(k <= F)
	f := &frame{frameNo: uint32(k)}
	if k == F {
		f.flags.FIN = true
		f.data = []byte{}
	} else {
		f.data, f.dataLength = []byte{c08D(k)}, 1
	}
	if e >= 0 {
		have[e] = true
	} else {
		verifCover("duplicate-dropped")
	}
	fin, _ := r.receive(f)

	// expected: the run of consecutive available frames starting at ws
	run := 0
	for run < 8 && have[run] {
		run++
	}
	verifAssert(r.windowStart == ws+uint64(run), "C08: the window advances over exactly the consecutive frames that are available")
	verifAssert(r.ackNo == ws-1+uint64(run), "C08: the acknowledgement number advances with the window")
	finInRun := F < ws+uint64(run)
	verifAssert(fin == finInRun && r.closed.Load() == finInRun, "C08: end-of-stream is reported iff the FIN frame was reached in order (after everything before it)")
	got := r.buffer.Bytes()
	wantLen := run
	if finInRun {
		wantLen--
		verifCover("fin-consumed")
	}
	verifAssert(len(got) == wantLen, "C08: exactly one byte per delivered data frame reaches the stream buffer")
	if len(got) == wantLen {
		ok := true
		for i := 0; i < wantLen; i++ {
			ok = verifAnd(ok, got[i] == c08D(ws+uint64(i)))
		}
		verifAssert(ok, "C08: the bytes appended are the sender's frames windowStart, windowStart+1, ... in order")
	}
	for _, it := range r.fragments {
		verifAssert(it.priority > r.windowStart, "C08: every fragment still queued lies beyond the new window start")
	}
	if run > 0 {
		verifCover("delivered-some")
	} else {
		verifCover("delivered-none")
	}
}

// The sender cuts a write into consecutively numbered frames whose data
// concatenates to the buffer written.
//
//verif:prop C08
//verif:bounds one write of symbolic length 0..2*32768+1 with symbolic content on a fresh sender (window size symbolic)
//verif:cover one-frame;two-frames;three-frames
//verif:unwind 12
//verif:timeout 600
func VH_C08_sender_write_cuts_consecutive_frames() {
	s := newSender(logrus.NewEntry(logrus.New()))
	first := verifU32("next-frame-number")
	s.frameNo = first
	s.ackNo = uint64(first)
	n := verifInt("len")
	verifAssume(n >= 0 && n <= 2*32768+1)
	b := verifBytes("payload", n)
	wrote, err := s.write(b)
	verifAssert(err == nil && wrote == n, "C08: write accepts the whole buffer")
	k := len(s.frames)
	total := 0
	i := verifInt("probe")
	verifAssume(i >= 0 && i < n)
	for j := 0; j < k; j++ {
		fr := s.frames[j].frame
		verifAssert(fr.frameNo == first+uint32(j), "C08: frames are numbered consecutively")
		verifAssert(int(fr.dataLength) == len(fr.data) && len(fr.data) <= int(MaxFrameDataLength) && len(fr.data) > 0, "C08: every frame carries between 1 and MaxFrameDataLength bytes, as announced")
		if i >= total && i < total+len(fr.data) {
			verifAssert(fr.data[i-total] == b[i], "C08: the frames' data concatenates to the written buffer")
		}
		total += len(fr.data)
	}
	verifAssert(total == n, "C08: the frames carry exactly the bytes written")
	verifAssert(s.frameNo == first+uint32(k), "C08: the next frame number follows the last frame")
	switch k {
	case 1:
		verifCover("one-frame")
	case 2:
		verifCover("two-frames")
	case 3:
		verifCover("three-frames")
	}
}

// A decoded frame owns its payload: the muxer reuses one receive buffer, so a
// fragment waiting in the reassembly queue must not change when the next
// datagram is read into that buffer.
//
//verif:prop C08
//verif:bounds the muxer's 65535-byte buffer, all bytes symbolic; one byte of the buffer rewritten after decoding
//verif:cover checked
func VH_C08_decoded_frame_payload_is_a_private_copy() {
	buf := verifBytes("datagram", 65535)
	f, err := fromBytes(buf)
	if err != nil || len(f.data) == 0 {
		return
	}
	i := verifInt("probe")
	verifAssume(i >= 0 && i < len(f.data))
	before := f.data[i]
	buf[12+i] ^= 0xFF // the next datagram overwrites the buffer
	verifAssert(f.data[i] == before, "C08: a queued fragment is not corrupted when the receive buffer is reused")
	verifCover("checked")
}

// End-of-stream only after everything before it: a FIN frame that overtakes
// earlier data must not move the tube towards "closed" (whatever the local
// close state), and the reader must not see end-of-stream.
//
//verif:prop C08
//verif:bounds tube state in {initiated, closeWait, finWait1, finWait2, closing, lastAck}; receiver window start symbolic; FIN frame arriving at window start +0 (in order) / +1 / +2 (earlier data still missing); ACK number = nothing new
//verif:cover in-order-fin;overtaking-fin
//verif:timeout 600
func VH_C08_fin_overtaking_data_does_not_end_the_stream() {
	log := logrus.NewEntry(logrus.New())
	r := &Reliable{sender: newSender(log), recvWindow: newReceiver(log), closed: make(chan struct{}), initRecv: make(chan struct{}), initDone: make(chan struct{}), sendDone: make(chan struct{}), log: log}
	close(r.sendDone)
	st := state(verifPick("tube-state", int(initiated), int(closeWait), int(finWait1), int(finWait2), int(closing), int(lastAck)))
	r.tubeState = st
	ws := verifU64("windowStart")
	verifAssume(ws >= 1 && ws < 1<<40)
	r.recvWindow.windowStart, r.recvWindow.ackNo = ws, ws-1
	// we still have one unacknowledged frame of our own, so "ACK of our FIN" cannot be what closes the tube
	r.sender.frames = append(r.sender.frames, struct {
		*frame
		time.Time
	}{&frame{frameNo: uint32(r.sender.ackNo)}, time.Time{}})
	e := verifPick("fin-offset", 0, 1, 2)
	fin := &frame{frameNo: uint32(ws + uint64(e)), ackNo: uint32(r.sender.ackNo), data: []byte{}}
	fin.flags.FIN, fin.flags.ACK = true, true
	_ = r.receive(fin)
	if e == 0 {
		verifCover("in-order-fin")
		verifAssert(r.recvWindow.closed.Load(), "C08: an in-order FIN ends the incoming stream")
		return
	}
	verifCover("overtaking-fin")
	verifAssert(!r.recvWindow.closed.Load(), "C08: a FIN that overtook earlier data does not end the incoming stream")
	verifAssert(r.tubeState == st, "C08: a FIN that overtook earlier data does not move the tube's close state (end-of-stream only after all earlier bytes were delivered)")
}

// One retransmission-timer tick of the tube's send loop keeps the sender's
// frames equal to the unacknowledged suffix of the stream: a tick may
// retransmit, back off and shrink the window, but it must not discard data the
// peer has not acknowledged (that would make the stream impossible to complete).
//
//verif:prop C08
//verif:replay none
//verif:bounds one timer tick of Reliable.send with 1..2 unacknowledged frames satisfying the sender invariant, RTO symbolic (any duration), congestion state symbolic; the loop body is run until it blocks again
//verif:cover ticked
//verif:timeout 600
func VH_C08_timer_tick_keeps_unacknowledged_frames() {
	log := logrus.NewEntry(logrus.New())
	r := &Reliable{recvWindow: newReceiver(log), closed: make(chan struct{}), sendDone: make(chan struct{}), sendQueue: make(chan []byte, 16), prioritySendQueue: make(chan []byte, 16), log: log}
	k := verifPick("frames", 1, 2)
	r.sender = c11Sender(k)
	tick := make(chan time.Time, 1)
	tick <- time.Time{}
	r.sender.RetransmitTicker = &time.Ticker{C: tick}
	r.sender.RTO = time.Duration(verifU64("rto") >> 2)
	r.sender.RTT = initialRTT
	r.tubeState = initiated
	first := r.sender.frames[0].frame
	ack := r.sender.ackNo
	verifOnBlock(func() {
		verifCover("ticked")
		verifAssert(r.sender.ackNo == ack, "C08: a timer tick does not move the acknowledgement number")
		verifAssert(len(r.sender.frames) == k, "C08: a timer tick never discards frames the peer has not acknowledged")
		if len(r.sender.frames) > 0 {
			verifAssert(r.sender.frames[0].frame == first, "C08: the oldest unacknowledged frame stays at the head of the retransmission buffer")
		}
	})
	r.send()
}

// A long outage: ten retransmission-timer ticks in a row without any
// acknowledgement. Afterwards the sender must still retransmit at least one
// frame per tick (a window that has collapsed to zero can never recover, so
// nothing written would ever become readable again).
//
//verif:prop C08
//verif:replay none
//verif:bounds ten consecutive timer ticks of Reliable.send with one unacknowledged frame, starting from each congestion state (slow start, AIMD, fast recovery) with the default window
//verif:cover ticked
//verif:unwind 40
//verif:timeout 600
func VH_C08_outage_never_collapses_the_retransmission_window() {
	log := logrus.NewEntry(logrus.New())
	r := &Reliable{recvWindow: newReceiver(log), closed: make(chan struct{}), sendDone: make(chan struct{}), sendQueue: make(chan []byte, 64), prioritySendQueue: make(chan []byte, 64), log: log}
	r.sender = newSender(log)
	r.sender.closed.Store(false)
	r.sender.senderWindow.state = controlState(verifPick("ccstate", int(SlowStart), int(AIMD), int(FastRecovery)))
	r.sender.frames = append(r.sender.frames, struct {
		*frame
		time.Time
	}{&frame{frameNo: 1, dataLength: 1, data: []byte{1}}, time.Time{}})
	tick := make(chan time.Time, 10)
	for i := 0; i < 10; i++ {
		tick <- time.Time{}
	}
	r.sender.RetransmitTicker = &time.Ticker{C: tick}
	r.tubeState = initiated
	verifOnBlock(func() {
		verifCover("ticked")
		verifAssert(len(r.sender.frames) == 1, "C08: an outage discards no unacknowledged frame")
		verifAssert(r.sender.framesToSend(true, 0) >= 1, "C08: after an outage of any length the sender still retransmits on the next timer tick")
		verifAssert(r.sender.senderWindow.windowSize >= 1, "C08: the send window never collapses to zero")
	})
	r.send()
}

// Acknowledgement handling under C08: frames held stay the unacknowledged
// suffix, and progress resets the duplicate-acknowledgement counter.
//
//verif:prop C08
//verif:bounds as VH_C11_recvAck_any_number
//verif:cover acked-some;acked-none
//verif:unwind 40
//verif:timeout 600
func VH_C08_acknowledgements_release_exactly_the_acknowledged_frames() { c11RecvAck(2) }

// An acknowledgement a tube sends reports the RECEIVER's own progress: the
// priority acknowledgement that answers a retransmitted data frame carries the
// receive window's acknowledgement number - never a number taken from the
// peer's frame (which the peer would read as a cumulative acknowledgement of
// frames it never delivered).
//
//verif:prop C08
//verif:bounds tube in state initiated, receive window start symbolic in [1,2^40); one retransmitted data frame (RTR, 1 byte) at window start +0..+2 with a symbolic acknowledgement field
//verif:cover answered
func VH_C08_retransmission_ack_reports_the_receivers_own_progress() {
	log := logrus.NewEntry(logrus.New())
	r := &Reliable{id: verifU8("tube-id"), sender: newSender(log), recvWindow: newReceiver(log), closed: make(chan struct{}), initRecv: make(chan struct{}), initDone: make(chan struct{}), sendDone: make(chan struct{}), sendQueue: make(chan []byte, 8), prioritySendQueue: make(chan []byte, 8), log: log}
	r.tubeState = initiated
	ws := verifU64("windowStart")
	verifAssume(ws >= 1 && ws < 1<<40)
	r.recvWindow.windowStart, r.recvWindow.ackNo = ws, ws-1
	e := verifPick("frame-offset", 0, 1, 2)
	pkt := &frame{tubeID: r.id, frameNo: uint32(ws + uint64(e)), ackNo: verifU32("peer-ack-field"), dataLength: 1, data: []byte{verifU8("payload")}}
	pkt.flags.RTR, pkt.flags.REL = true, true
	_ = r.receive(pkt)
	verifAssert(len(r.prioritySendQueue) == 1, "C08: a retransmitted data frame is answered by one priority acknowledgement")
	if len(r.prioritySendQueue) != 1 {
		return
	}
	raw := <-r.prioritySendQueue
	f, err := fromBytes(append(raw, make([]byte, 16)...))
	verifAssert(err == nil, "C08: the acknowledgement decodes")
	if err != nil {
		return
	}
	verifCover("answered")
	verifAssert(verifAnd(f.flags.ACK, f.ackNo == uint32(ws-1)), "C08: the acknowledgement number sent is the receive window's own (everything before it was received in order), not a number echoed from the peer's frame")
}

// The message API over the byte stream (WriteMsgUDP / ReadMsgUDP, used by the
// principal proxy): a message is returned only when all of its bytes have
// arrived, and then it is exactly the bytes written.
//
//verif:prop C08
//verif:replay none
//verif:bounds message length in {1,2,300}; the stream holds the 2-byte length prefix and the first 0, 1 or all-but-one or all bytes of the body (the rest has not arrived yet); body bytes symbolic
//verif:cover complete;waiting
func VH_C08_message_read_waits_for_the_whole_message() {
	log := logrus.NewEntry(logrus.New())
	r := &Reliable{sender: newSender(log), recvWindow: newReceiver(log), closed: make(chan struct{}), initRecv: make(chan struct{}), initDone: make(chan struct{}), sendDone: make(chan struct{}), log: log}
	close(r.initDone)
	r.tubeState = initiated
	l := verifPick("message-length", 1, 2, 300)
	have := verifPick("body-bytes-arrived", 0, 1, 299, 300)
	verifAssume(have <= l && (have == l || have == 0 || have == 1 || have == l-1))
	msg := verifBytes("message", l)
	r.recvWindow.buffer.Write([]byte{byte(l >> 8), byte(l)})
	r.recvWindow.buffer.Write(msg[:have])
	verifOnBlock(func() {
		verifCover("waiting")
		verifAssert(have < l, "C08: ReadMsgUDP blocks only while part of the message is still missing")
	})
	b := make([]byte, 400)
	n, _, _, _, err := r.ReadMsgUDP(b, nil)
	// it returned without waiting
	verifAssert(verifOr(have == l, err != nil), "C08: ReadMsgUDP does not hand out a message before all of its bytes have arrived (no zero-filled tail)")
	if have == l {
		verifCover("complete")
		verifAssert(err == nil && n == l, "C08: a complete message is returned whole")
		if n == l {
			verifAssertBytesEq(b[:n], msg, "C08: the message read is the message written")
		}
	}
}

// Closing one tube never unmaps its twin of the other reliability class: tube
// identifiers are allocated per class, so a reliable and an unreliable tube
// regularly share a number.
//
//verif:prop C08
//verif:replay none
//verif:stub (*hop.computer/hop/tubes.Reliable).WaitForClose = c09WaitForClose
//verif:stub (*hop.computer/hop/tubes.Unreliable).WaitForClose = c08UnrelWaitForClose
//verif:bounds muxer of either parity holding a reliable and an unreliable tube with the same symbolic identifier (opened by the peer, so no reap delay); either one is closed and reaped
//verif:cover reliable-reaped;unreliable-reaped
func VH_C08_reaping_a_tube_leaves_its_twin_of_the_other_class_mapped() { c08Twin("C08") }

//verif:prop C09
//verif:replay none
//verif:stub (*hop.computer/hop/tubes.Reliable).WaitForClose = c09WaitForClose
//verif:stub (*hop.computer/hop/tubes.Unreliable).WaitForClose = c08UnrelWaitForClose
//verif:bounds as VH_C08_reaping_a_tube_leaves_its_twin_of_the_other_class_mapped
//verif:cover reliable-reaped;unreliable-reaped
func VH_C09_reaping_a_tube_leaves_its_twin_of_the_other_class_mapped() { c08Twin("C09") }

func c08UnrelWaitForClose(u *Unreliable) {}

func c08Twin(prop string) {
	log := logrus.NewEntry(logrus.New())
	m := &Muxer{reliableTubes: map[byte]*Reliable{}, unreliableTubes: map[byte]*Unreliable{}, stopped: make(chan struct{}), log: log}
	m.idParity = byte(verifPick("parity", 0, 1))
	id := verifU8("tube-id")
	verifAssume(id%2 != m.idParity) // opened by the peer: reaped without the 4*RTT delay
	rel := &Reliable{id: id, sender: newSender(log), log: log}
	unrel := &Unreliable{id: id, log: log}
	m.reliableTubes[id], m.unreliableTubes[id] = rel, unrel
	if verifBool("close-the-reliable-one") {
		m.reapTube(rel)
		verifCover("reliable-reaped")
		_, gone := m.reliableTubes[id]
		verifAssert(!gone, prop+": a reaped tube is unmapped")
		got, ok := m.unreliableTubes[id]
		verifAssert(ok && got == unrel, prop+": reaping a reliable tube leaves the unreliable tube with the same identifier mapped")
	} else {
		m.reapTube(unrel)
		verifCover("unreliable-reaped")
		_, gone := m.unreliableTubes[id]
		verifAssert(!gone, prop+": a reaped tube is unmapped")
		got, ok := m.reliableTubes[id]
		verifAssert(ok && got == rel, prop+": reaping an unreliable tube leaves the reliable tube with the same identifier mapped (its stream must stay deliverable)")
	}
}

//verif:prop C08
//verif:replay none
//verif:tier thorough
//verif:bounds as VH_C08_receiver_step_delivers_in_order_prefix with 0..3 queued fragments
//verif:cover delivered-some;delivered-none;fin-consumed;duplicate-dropped
//verif:timeout 3000
func VH_C08_receiver_step_delivers_in_order_prefix_3queued() { c08ReceiverStep(3) }

// C09: a tube that reached "closed" too early frees its identifier while the
// peer's old tube is still retransmitting - the next tube with that identifier
// would receive the old tube's bytes. The FIN-ordering obligation is registered
// here as well.
//
//verif:prop C09
//verif:bounds as VH_C08_fin_overtaking_data_does_not_end_the_stream
//verif:cover in-order-fin;overtaking-fin
//verif:timeout 600
func VH_C09_an_overtaking_fin_never_frees_the_tube_identifier_early() {
	VH_C08_fin_overtaking_data_does_not_end_the_stream()
}
