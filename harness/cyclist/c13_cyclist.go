package cyclist

// C13 — the Cyclist duplex against a transcription of its specification.
//
// The 12-round permutation is replaced by 25 uninterpreted functions of the 25
// input lanes, shared by the implementation and the reference. The reference
// below is written from the Cyclist definition (Xoodyak specification,
// Algorithms 2 and 3) on a 200-byte state; it shares no code with the package.
// One call from an ARBITRARY state (phase, mode, all 1600 state bits symbolic)
// is compared, which covers call sequences of any length.

var c13LaneNames = [25]string{"p12l00", "p12l01", "p12l02", "p12l03", "p12l04", "p12l05", "p12l06", "p12l07", "p12l08", "p12l09", "p12l10", "p12l11", "p12l12", "p12l13", "p12l14", "p12l15", "p12l16", "p12l17", "p12l18", "p12l19", "p12l20", "p12l21", "p12l22", "p12l23", "p12l24"}

func c13Perm(a *[25]uint64) {
	in := *a
	for k := 0; k < 25; k++ {
		a[k] = verifUF64(c13LaneNames[k], in[0], in[1], in[2], in[3], in[4], in[5], in[6], in[7], in[8], in[9], in[10], in[11], in[12], in[13], in[14], in[15], in[16], in[17], in[18], in[19], in[20], in[21], in[22], in[23], in[24])
	}
}

//verif:filestub hop.computer/hop/cyclist.keccakF1600 = c13Perm

// ---- reference ----

type c13Ref struct {
	up    bool
	keyed bool
	s     [200]byte
}

const c13Rate = 136

func (r *c13Ref) f() {
	var l [25]uint64
	for i := 0; i < 200; i++ {
		l[i/8] |= uint64(r.s[i]) << (8 * (i % 8))
	}
	c13Perm(&l)
	for i := 0; i < 200; i++ {
		r.s[i] = byte(l[i/8] >> (8 * (i % 8)))
	}
}

func (r *c13Ref) down(x []byte, cd byte) {
	for i, b := range x {
		r.s[i] ^= b
	}
	r.s[len(x)] ^= 0x01
	if !r.keyed {
		cd &= 0x01
	}
	r.s[199] ^= cd
	r.up = false
}

func (r *c13Ref) upN(n int, cu byte) []byte {
	if r.keyed {
		r.s[199] ^= cu
	}
	r.f()
	r.up = true
	return append([]byte(nil), r.s[:n]...)
}

func (r *c13Ref) absorbAny(x []byte, rate int, cd byte) {
	for first := true; first || len(x) > 0; first = false {
		if !r.up {
			r.upN(0, 0)
		}
		n := len(x)
		if n > rate {
			n = rate
		}
		r.down(x[:n], cd)
		cd = 0
		x = x[n:]
	}
}

func (r *c13Ref) crypt(in []byte, decrypt bool) []byte {
	var out []byte
	cu := byte(0x80)
	for first := true; first || len(in) > 0; first = false {
		n := len(in)
		if n > c13Rate {
			n = c13Rate
		}
		ks := r.upN(n, cu)
		o := make([]byte, n)
		for i := 0; i < n; i++ {
			o[i] = in[i] ^ ks[i]
		}
		if decrypt {
			r.down(o, 0)
		} else {
			r.down(in[:n], 0)
		}
		out = append(out, o...)
		in = in[n:]
		cu = 0
	}
	return out
}

func (r *c13Ref) squeezeAny(l int, cu byte) []byte {
	n := l
	if n > c13Rate {
		n = c13Rate
	}
	y := r.upN(n, cu)
	for len(y) < l {
		r.down(nil, 0)
		n = l - len(y)
		if n > c13Rate {
			n = c13Rate
		}
		y = append(y, r.upN(n, 0)...)
	}
	return y
}

func (r *c13Ref) initialize(key, id, counter []byte) {
	*r = c13Ref{up: true}
	if len(key) > 0 {
		r.keyed = true
		kid := append(append(append([]byte(nil), key...), id...), byte(len(id)))
		r.absorbAny(kid, c13Rate, 0x02)
		if len(counter) > 0 {
			r.absorbAny(counter, 1, 0x00)
		}
	}
}

// ---- harness plumbing ----

// c13Pair builds an arbitrary implementation state and the same abstract state
// for the reference.
func c13Pair() (*Cyclist, *c13Ref) {
	c := &Cyclist{rAbsorb: c13Rate, rSqueeze: c13Rate}
	r := &c13Ref{}
	if verifBool("phase-up") {
		c.phase, r.up = Up, true
	} else {
		c.phase = Down
	}
	if verifBool("keyed") {
		c.mode, r.keyed = Key, true
	} else {
		c.mode = Hash
	}
	for i := range c.s {
		c.s[i] = verifU64("lane")
	}
	for i := 0; i < 200; i++ {
		r.s[i] = byte(c.s[i/8] >> (8 * (i % 8)))
	}
	return c, r
}

func c13SameState(c *Cyclist, r *c13Ref) bool {
	ok := verifAnd((c.phase == Up) == r.up, (c.mode == Key) == r.keyed)
	for i := 0; i < 25; i++ {
		var l uint64
		for j := 0; j < 8; j++ {
			l |= uint64(r.s[8*i+j]) << (8 * j)
		}
		ok = verifAnd(ok, c.s[i] == l)
	}
	return ok
}

func c13EqAll(a, b []byte) bool {
	if len(a) != len(b) {
		return false
	}
	ok := true
	for i := range a {
		ok = verifAnd(ok, a[i] == b[i])
	}
	return ok
}

func c13Len(tag string) int { return verifPick(tag, 0, 1, 135, 136, 137, 271, 272, 273) }

//verif:prop C13
//verif:replay none
//verif:solver cvc5
//verif:bounds one Absorb from an arbitrary state (phase, mode, 25 symbolic lanes), operand length in {0,1,135,136,137,271,272,273}, bytes symbolic; permutation uninterpreted
//verif:cover compared
//verif:timeout 600
func VH_C13_absorb_equals_specification() {
	c, r := c13Pair()
	x := verifBytes("x", c13Len("len"))
	c.Absorb(x)
	r.absorbAny(x, c13Rate, 0x03)
	verifAssert(c13SameState(c, r), "C13: Absorb leaves the state the specification prescribes")
	verifCover("compared")
}

//verif:prop C13
//verif:replay none
//verif:solver cvc5
//verif:bounds one Squeeze / SqueezeKey / Ratchet from an arbitrary state, output length in {0,1,135,136,137,271,272,273}; wrong-mode calls must panic
//verif:cover squeeze;squeezekey;ratchet;wrong-mode-panics
//verif:timeout 600
func VH_C13_squeeze_ratchet_equal_specification() {
	c, r := c13Pair()
	switch verifPick("op", 0, 1, 2) {
	case 0:
		n := c13Len("len")
		y := make([]byte, n)
		c.Squeeze(y)
		want := r.squeezeAny(n, 0x40)
		verifAssert(c13EqAll(y, want), "C13: Squeeze output equals the specification")
		verifCover("squeeze")
	case 1:
		n := c13Len("len")
		y := make([]byte, n)
		if c.mode != Key {
			verifAssert(verifPanics(func() { c.SqueezeKey(y) }), "C13: SqueezeKey outside keyed mode is refused")
			verifCover("wrong-mode-panics")
			return
		}
		c.SqueezeKey(y)
		want := r.squeezeAny(n, 0x20)
		verifAssert(c13EqAll(y, want), "C13: SqueezeKey output equals the specification")
		verifCover("squeezekey")
	case 2:
		if c.mode != Key {
			verifAssert(verifPanics(func() { c.Ratchet() }), "C13: Ratchet outside keyed mode is refused")
			return
		}
		c.Ratchet()
		y := r.squeezeAny(32, 0x10)
		r.absorbAny(y, c13Rate, 0x00)
		verifCover("ratchet")
	}
	verifAssert(c13SameState(c, r), "C13: Squeeze/SqueezeKey/Ratchet leave the state the specification prescribes")
}

//verif:prop C13
//verif:replay none
//verif:solver cvc5
//verif:bounds one Encrypt or Decrypt from an arbitrary keyed state, operand length in {0,1,135,136,137,271,272,273}, bytes symbolic; unkeyed calls must panic
//verif:cover encrypt;decrypt;wrong-mode-panics
//verif:timeout 600
func VH_C13_encrypt_decrypt_equal_specification() {
	c, r := c13Pair()
	n := c13Len("len")
	in := verifBytes("in", n)
	out := make([]byte, n)
	dec := verifBool("decrypt")
	if c.mode != Key {
		verifAssert(verifPanics(func() { c.Encrypt(out, in) }), "C13: Encrypt outside keyed mode is refused")
		verifCover("wrong-mode-panics")
		return
	}
	var want []byte
	if dec {
		c.Decrypt(out, in)
		want = r.crypt(in, true)
		verifCover("decrypt")
	} else {
		c.Encrypt(out, in)
		want = r.crypt(in, false)
		verifCover("encrypt")
	}
	verifAssert(c13EqAll(out, want), "C13: Encrypt/Decrypt output equals the specification")
	verifAssert(c13SameState(c, r), "C13: Encrypt/Decrypt leave the state the specification prescribes")
}

//verif:prop C13
//verif:replay none
//verif:solver cvc5
//verif:bounds Initialize(key, id, counter) or InitializeEmpty() on a fresh object or on one in an arbitrary state (phase, mode, 1600 state bits): key length in {0,1,16,32} (nil and empty non-nil), id length in {0,1,24}, counter length in {0,1,2,4,8}, all bytes symbolic
//verif:cover keyed;unkeyed;counter;reused;initialize-empty
//verif:timeout 600
func VH_C13_initialize_equals_specification() {
	key := verifBytes("key", verifPick("keylen", 0, 1, 16, 32))
	id := verifBytes("id", verifPick("idlen", 0, 1, 24))
	ctr := verifBytes("counter", verifPick("ctrlen", 0, 1, 2, 4, 8))
	if len(key) == 0 && verifBool("key-is-nil") {
		key = nil
	}
	// a fresh object or a USED one (arbitrary phase, mode, state): a reset must
	// not depend on what the object did before
	c := &Cyclist{}
	if verifBool("object-was-used") {
		c, _ = c13Pair()
		verifCover("reused")
	}
	r := &c13Ref{}
	if len(key) == 0 && verifBool("use-initialize-empty") {
		c.InitializeEmpty()
		verifCover("initialize-empty")
	} else {
		c.Initialize(key, id, ctr)
	}
	r.initialize(key, id, ctr)
	verifAssert(c13SameState(c, r), "C13: Initialize(key, id, counter) / InitializeEmpty give the state the specification prescribes, whatever the object did before")
	verifAssert(verifAnd(c.rAbsorb == c13Rate, c.rSqueeze == c13Rate), "C13: rates are those of the instantiation")
	if len(key) > 0 {
		verifCover("keyed")
		if len(ctr) > 1 {
			verifCover("counter")
		}
	} else {
		verifCover("unkeyed")
	}
}

// Two objects in the same state stay in the same state when one encrypts and
// the other decrypts the resulting ciphertext.
//
//verif:prop C13
//verif:replay none
//verif:solver cvc5
//verif:bounds two duplex objects in the same arbitrary keyed state; plaintext length in {0,1,135,136,137,271,272,273}, bytes symbolic
//verif:cover synced
//verif:timeout 600
func VH_C13_encrypt_decrypt_keep_peers_in_sync() {
	a, _ := c13Pair()
	verifAssume(a.mode == Key)
	b := &Cyclist{}
	*b = *a
	n := c13Len("len")
	pt := verifBytes("plaintext", n)
	ct := make([]byte, n)
	a.Encrypt(ct, pt)
	out := make([]byte, n)
	b.Decrypt(out, ct)
	verifAssert(c13EqAll(out, pt), "C13: the peer decrypts what was encrypted")
	ok := verifAnd(a.phase == b.phase, a.mode == b.mode)
	for i := range a.s {
		ok = verifAnd(ok, a.s[i] == b.s[i])
	}
	verifAssert(ok, "C13: after Encrypt / Decrypt both peers are in the same state (so their next tags and keys agree)")
	var ta, tb [16]byte
	a.Squeeze(ta[:])
	b.Squeeze(tb[:])
	verifAssert(ta == tb, "C13: both peers squeeze the same tag afterwards")
	verifCover("synced")
}

// C02 rests on the duplex binding EVERY byte it is given: an absorbed or
// encrypted byte that does not reach the state can be altered in flight
// without changing any later MAC. The one-step differentials are therefore
// registered under C02 as well.
//
//verif:prop C02
//verif:replay none
//verif:solver cvc5
//verif:bounds as VH_C13_absorb_equals_specification
//verif:cover compared
//verif:timeout 600
func VH_C02_duplex_absorb_binds_every_byte() { VH_C13_absorb_equals_specification() }

//verif:prop C02
//verif:replay none
//verif:solver cvc5
//verif:bounds as VH_C13_encrypt_decrypt_equal_specification
//verif:cover encrypt;decrypt;wrong-mode-panics
//verif:timeout 600
func VH_C02_duplex_crypt_binds_every_byte() { VH_C13_encrypt_decrypt_equal_specification() }

// C10: the handshake drives the duplex with lengths the NETWORK chooses
// (certificate vectors of length 0, empty SNI ...): no operand length may crash it.
//
//verif:prop C10
//verif:replay none
//verif:solver cvc5
//verif:bounds as VH_C13_encrypt_decrypt_equal_specification (operand lengths include 0)
//verif:cover encrypt;decrypt;wrong-mode-panics
//verif:timeout 600
func VH_C10_duplex_crypt_never_panics_on_any_operand_length() {
	VH_C13_encrypt_decrypt_equal_specification()
}

//verif:prop C10
//verif:replay none
//verif:solver cvc5
//verif:bounds as VH_C13_absorb_equals_specification (operand lengths include 0)
//verif:cover compared
//verif:timeout 600
func VH_C10_duplex_absorb_never_panics_on_any_operand_length() {
	VH_C13_absorb_equals_specification()
}
