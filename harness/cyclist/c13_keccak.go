package cyclist

// C13 — the generic (pure Go) 12-round permutation against FIPS 202.
//
// cyclist/keccakf.go is only compiled where the assembly is not (its build
// constraint is `!amd64 || appengine || gccgo`), so this harness loads the
// package with the build tag `appengine`: the real keccakF1600 of the current
// tree is then the generic one, executed symbolically on 25 symbolic lanes and
// compared lane by lane with Keccak-p[1600, 12] transcribed from FIPS 202
// §3.2–3.4 (θ, ρ, π, χ, ι as loops over (x, y); the ρ offsets come from the
// (x,y) -> (y, 2x+3y) walk of Algorithm 2, the ι constants from the LFSR rc(t)
// of Algorithm 5 — no table is shared with the implementation). Rounds
// ir = 12..23 (nr = 12, l = 6).

func c13KpRCBit(t int) uint64 {
	t %= 255
	if t == 0 {
		return 1
	}
	// R[0..8], R = 10000000
	var r [9]uint64
	r[0] = 1
	for i := 1; i <= t; i++ {
		// R = 0 || R
		for k := 8; k > 0; k-- {
			r[k] = r[k-1]
		}
		r[0] = 0
		r[0] ^= r[8]
		r[4] ^= r[8]
		r[5] ^= r[8]
		r[6] ^= r[8]
		r[8] = 0 // Trunc8
	}
	return r[0]
}

func c13KpRC(ir int) uint64 {
	var rc uint64
	for j := 0; j <= 6; j++ {
		rc |= c13KpRCBit(j+7*ir) << ((1 << uint(j)) - 1)
	}
	return rc
}

func c13KpRot(v uint64, n int) uint64 {
	n %= 64
	if n == 0 {
		return v
	}
	return v<<uint(n) | v>>uint(64-n)
}

// c13KpRound: Rnd(A, ir) = ι(χ(π(ρ(θ(A)))), ir), lane (x,y) at a[x+5y].
func c13KpRound(a [25]uint64, ir int) [25]uint64 {
	// θ
	var c, d [5]uint64
	for x := 0; x < 5; x++ {
		c[x] = a[x] ^ a[x+5] ^ a[x+10] ^ a[x+15] ^ a[x+20]
	}
	for x := 0; x < 5; x++ {
		d[x] = c[(x+4)%5] ^ c13KpRot(c[(x+1)%5], 1)
	}
	for y := 0; y < 5; y++ {
		for x := 0; x < 5; x++ {
			a[x+5*y] ^= d[x]
		}
	}
	// ρ
	var b [25]uint64
	b[0] = a[0]
	x, y := 1, 0
	for t := 0; t <= 23; t++ {
		b[x+5*y] = c13KpRot(a[x+5*y], (t+1)*(t+2)/2)
		x, y = y, (2*x+3*y)%5
	}
	// π
	var p [25]uint64
	for y := 0; y < 5; y++ {
		for x := 0; x < 5; x++ {
			p[x+5*y] = b[(x+3*y)%5+5*x]
		}
	}
	// χ
	var o [25]uint64
	for y := 0; y < 5; y++ {
		for x := 0; x < 5; x++ {
			o[x+5*y] = p[x+5*y] ^ (^p[(x+1)%5+5*y] & p[(x+2)%5+5*y])
		}
	}
	// ι
	o[0] ^= c13KpRC(ir)
	return o
}

var c13KpLaneNames = [25]string{"kl00", "kl01", "kl02", "kl03", "kl04", "kl05", "kl06", "kl07", "kl08", "kl09", "kl10", "kl11", "kl12", "kl13", "kl14", "kl15", "kl16", "kl17", "kl18", "kl19", "kl20", "kl21", "kl22", "kl23", "kl24"}

// The generic permutation equals Keccak-p[1600, 12] on every 1600-bit state.
//
//verif:prop C13
//verif:tier both
//verif:tags appengine
//verif:solver cvc5
//verif:nostub hop.computer/hop/cyclist.keccakF1600
//verif:bounds build tag appengine selects cyclist/keccakf.go (the generic permutation; the amd64 assembly is not encoded); all 25 lanes symbolic 64-bit; 12 rounds, no unrolling bound needed (loops are concrete); reference = FIPS 202 step mappings with LFSR-generated round constants and walk-generated rotation offsets
//verif:cover generic permutation compared
//verif:timeout 900
func VH_C13_generic_permutation_equals_keccak_p_1600_12() {
	var a, s [25]uint64
	for i := 0; i < 25; i++ {
		a[i] = verifU64(c13KpLaneNames[i])
	}
	s = a
	for ir := 12; ir <= 23; ir++ {
		s = c13KpRound(s, ir)
	}
	keccakF1600(&a)
	same := true
	for i := 0; i < 25; i++ {
		same = verifAnd(same, a[i] == s[i])
	}
	verifAssert(same, "C13: the generic keccakF1600 equals Keccak-p[1600,12] of FIPS 202 on all 25 lanes")
	verifCover("generic permutation compared")
}
