package proxy

import (
	"io"
	"net"
	"sync"
	"time"

	"hop.computer/hop/transport"
	"hop.computer/hop/tubes"
)

// C10 (principal proxy): the delegate server proxies datagrams between a UDP
// socket and an unreliable tube. A datagram of ANY size arriving on the socket -
// junk from anyone who can reach the port - must not end the proxy: it is
// forwarded (truncated to what a tube message can carry) or dropped, and the
// datagram after it is still forwarded.

type c10Sock struct {
	sizes  []int // sizes of the datagrams that arrive, in order
	reads  int
	closed bool
	wrote  []int
	// what the other side accepts: the real limit of an unreliable tube message
}

func (s *c10Sock) ReadMsgUDP(b, oob []byte) (int, int, int, *net.UDPAddr, error) {
	if s.reads >= len(s.sizes) {
		return 0, 0, 0, nil, io.EOF
	}
	n := s.sizes[s.reads]
	s.reads++
	if n > len(b) {
		n = len(b) // a UDP socket truncates to the buffer
	}
	return n, 0, 0, nil, nil
}
func (s *c10Sock) WriteMsgUDP(b, oob []byte, addr *net.UDPAddr) (int, int, error) {
	if len(b) > int(tubes.MaxFrameDataLength) {
		return 0, 0, transport.ErrBufOverflow // what Unreliable.WriteMsgUDP does
	}
	s.wrote = append(s.wrote, len(b))
	return len(b), 0, nil
}
func (s *c10Sock) Close() error                       { s.closed = true; return nil }
func (s *c10Sock) LocalAddr() net.Addr                { return nil }
func (s *c10Sock) RemoteAddr() net.Addr               { return nil }
func (s *c10Sock) Read(p []byte) (int, error)         { return 0, io.EOF }
func (s *c10Sock) Write(p []byte) (int, error)        { return len(p), nil }
func (s *c10Sock) SetDeadline(t time.Time) error      { return nil }
func (s *c10Sock) SetReadDeadline(t time.Time) error  { return nil }
func (s *c10Sock) SetWriteDeadline(t time.Time) error { return nil }

//verif:prop C10
//verif:replay none
//verif:bounds one direction of the unreliable proxy: two datagrams arrive on the socket, the first of symbolic size 0..65535, the second of 100 bytes; the tube side accepts messages up to tubes.MaxFrameDataLength exactly as Unreliable.WriteMsgUDP does
//verif:cover proxied
func VH_C10_unreliable_proxy_survives_a_datagram_of_any_size() {
	first := verifInt("first-datagram-size")
	verifAssume(first >= 0 && first <= 65535)
	sock := &c10Sock{sizes: []int{first, 100}}
	tube := &c10Sock{}
	wg := &sync.WaitGroup{}
	wg.Add(1)
	unreliableProxyOneSide(sock, tube, wg)
	verifCover("proxied")
	verifAssert(sock.reads == 2, "C10: the proxy keeps reading after a datagram of any size")
	verifAssert(len(tube.wrote) >= 1 && tube.wrote[len(tube.wrote)-1] == 100, "C10: the datagram that follows an oversized one is still forwarded (the proxied session keeps working)")
}
