package hopserver

import (
	"net"

	"hop.computer/hop/authkeys"
	"hop.computer/hop/certs"
	"hop.computer/hop/config"
	"hop.computer/hop/keys"
	"hop.computer/hop/transport"
)

// C20 (consequence) — a server presents the first virtual host whose pattern
// matches the requested name.

//verif:prop C20
//verif:bounds <=3 virtual hosts, pattern of each one of two matching globs / non-matching / literal name; name fixed "host.example" or empty; real glob.Glob
//verif:cover first;later;none;empty-name
func VH_C20_vhosts_first_match() {
	name := "host.example"
	if verifBool("empty-name") {
		name = ""
		verifCover("empty-name")
	}
	n := int(verifU8("nvhosts") % 4)
	var vh VirtualHosts
	want := -1
	for i := 0; i < n; i++ {
		var p string
		var m bool
		switch verifU8("pattern") % 4 {
		case 0:
			p, m = "*", true
		case 1:
			p, m = "h*e", name != ""
		case 2:
			p, m = "host.example", name != ""
		default:
			p, m = "x*", false
		}
		vh = append(vh, VirtualHost{Pattern: p})
		if m && want < 0 {
			want = i
		}
	}
	got := vh.Match(name)
	if want < 0 {
		verifAssert(got == nil, "C20: VirtualHosts.Match returns nil when no pattern matches")
		verifCover("none")
	} else {
		verifAssert(got == &vh[want], "C20: VirtualHosts.Match returns the first matching virtual host")
		if want == 0 {
			verifCover("first")
		} else {
			verifCover("later")
		}
	}
}

// ---- C10: the server-name lookup reachable from the network ----

var c10Captured transport.ServerConfig

func c10NewVirtualHosts(c *config.ServerConfig, k *keys.X25519KeyPair, cert *certs.Certificate) (VirtualHosts, error) {
	// patterns of the configured host blocks: chosen by the harness
	return c10Hosts, nil
}

var c10Hosts VirtualHosts

func c10ListenPacket(network, address string) (net.PacketConn, error) { return &net.UDPConn{}, nil }

func c10NewServer(conn transport.UDPLike, cfg transport.ServerConfig) (*transport.Server, error) {
	c10Captured = cfg
	return &transport.Server{}, nil
}

func c10NewHopServerExt(u *transport.Server, c *config.ServerConfig, ks *authkeys.SyncAuthKeySet) (*HopServer, error) {
	return &HopServer{}, nil
}

// Whatever server name a client's ClientAck decrypts to - any label bytes, any
// type byte - the certificate lookup installed by NewHopServer returns a
// certificate or an error; it never panics (the lookup runs in the transport
// server's only receive goroutine).
//
//verif:prop C10
//verif:replay none
//verif:stub hop.computer/hop/hopserver.NewVirtualHosts = c10NewVirtualHosts
//verif:stub net.ListenPacket = c10ListenPacket
//verif:stub hop.computer/hop/transport.NewServer = c10NewServer
//verif:stub hop.computer/hop/hopserver.NewHopServerExt = c10NewHopServerExt
//verif:bounds the GetCertificate callback built by NewHopServer, with 0..2 host blocks (patterns from {"*", "*.example.com", "a"}); requested name: label of 0..3 symbolic bytes, type byte over all 256 values
//verif:cover matched;no-match
func VH_C10_server_name_lookup_never_panics() {
	c10Hosts = nil
	pats := []string{"*", "*.example.com", "a"}
	n := verifPick("host-blocks", 0, 1, 2)
	for i := 0; i < n; i++ {
		c10Hosts = append(c10Hosts, VirtualHost{Pattern: pats[verifPick("pattern", 0, 1, 2)]})
	}
	_, err := NewHopServer(&config.ServerConfig{ListenAddress: "localhost:0", InsecureSkipVerify: true})
	verifAssert(err == nil && c10Captured.GetCertificate != nil, "C10: NewHopServer installs a certificate lookup")
	ln := verifPick("label-len", 0, 1, 3)
	name := certs.Name{Label: verifBytes("label", ln), Type: certs.IDType(verifU8("name-type"))}
	c, err := c10Captured.GetCertificate(transport.ClientHandshakeInfo{ServerName: name})
	if err == nil {
		verifAssert(c != nil, "C10: a successful lookup yields a certificate")
		verifCover("matched")
	} else {
		verifCover("no-match")
	}
}
