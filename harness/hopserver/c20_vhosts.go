package hopserver

import (
	"net"

	"hop.computer/hop/authkeys"
	"hop.computer/hop/certs"
	"hop.computer/hop/config"
	"hop.computer/hop/keys"
	"hop.computer/hop/pkg/glob"
	"hop.computer/hop/transport"
)

// C20 (consequence) — a server presents the first virtual host whose pattern
// matches the requested name.

//verif:prop C20
//verif:bounds <=3 virtual hosts, pattern of each one of two matching globs / non-matching / literal name; name fixed "host.example" or empty; real glob.Glob
//verif:cover first;later;none;empty-name
func VH_C20_vhosts_first_match() {
	name := "host.example"
	if verifBool("empty-name") {
		name = ""
		verifCover("empty-name")
	}
	n := int(verifU8("nvhosts") % 4)
	var vh VirtualHosts
	want := -1
	for i := 0; i < n; i++ {
		var p string
		var m bool
		switch verifU8("pattern") % 4 {
		case 0:
			p, m = "*", true
		case 1:
			p, m = "h*e", name != ""
		case 2:
			p, m = "host.example", name != ""
		default:
			p, m = "x*", false
		}
		vh = append(vh, VirtualHost{Pattern: p})
		if m && want < 0 {
			want = i
		}
	}
	got := vh.Match(name)
	if want < 0 {
		verifAssert(got == nil, "C20: VirtualHosts.Match returns nil when no pattern matches")
		verifCover("none")
	} else {
		verifAssert(got == &vh[want], "C20: VirtualHosts.Match returns the first matching virtual host")
		if want == 0 {
			verifCover("first")
		} else {
			verifCover("later")
		}
	}
}

// ---- C10: the server-name lookup reachable from the network ----

var c10Captured transport.ServerConfig

func c10NewVirtualHosts(c *config.ServerConfig, k *keys.X25519KeyPair, cert *certs.Certificate) (VirtualHosts, error) {
	// patterns of the configured host blocks: chosen by the harness
	return c10Hosts, nil
}

var c10Hosts VirtualHosts

func c10ListenPacket(network, address string) (net.PacketConn, error) { return &net.UDPConn{}, nil }

func c10NewServer(conn transport.UDPLike, cfg transport.ServerConfig) (*transport.Server, error) {
	c10Captured = cfg
	return &transport.Server{}, nil
}

func c10NewHopServerExt(u *transport.Server, c *config.ServerConfig, ks *authkeys.SyncAuthKeySet) (*HopServer, error) {
	return &HopServer{}, nil
}

// Whatever server name a client's ClientAck decrypts to - any label bytes, any
// type byte - the certificate lookup installed by NewHopServer returns a
// certificate or an error; it never panics (the lookup runs in the transport
// server's only receive goroutine).
//
//verif:prop C10
//verif:replay none
//verif:stub hop.computer/hop/hopserver.NewVirtualHosts = c10NewVirtualHosts
//verif:stub net.ListenPacket = c10ListenPacket
//verif:stub hop.computer/hop/transport.NewServer = c10NewServer
//verif:stub hop.computer/hop/hopserver.NewHopServerExt = c10NewHopServerExt
//verif:bounds the GetCertificate callback built by NewHopServer, with 0..2 host blocks (patterns from {"*", "*.example.com", "a"}); requested name: label of 0..3 symbolic bytes, type byte over all 256 values
//verif:cover matched;no-match
func VH_C10_server_name_lookup_never_panics() {
	c10Hosts = nil
	pats := []string{"*", "*.example.com", "a"}
	n := verifPick("host-blocks", 0, 1, 2)
	for i := 0; i < n; i++ {
		c10Hosts = append(c10Hosts, VirtualHost{Pattern: pats[verifPick("pattern", 0, 1, 2)]})
	}
	_, err := NewHopServer(&config.ServerConfig{ListenAddress: "localhost:0", InsecureSkipVerify: true})
	verifAssert(err == nil && c10Captured.GetCertificate != nil, "C10: NewHopServer installs a certificate lookup")
	ln := verifPick("label-len", 0, 1, 3)
	name := certs.Name{Label: verifBytes("label", ln), Type: certs.IDType(verifU8("name-type"))}
	c, err := c10Captured.GetCertificate(transport.ClientHandshakeInfo{ServerName: name})
	if err == nil {
		verifAssert(c != nil, "C10: a successful lookup yields a certificate")
		verifCover("matched")
	} else {
		verifCover("no-match")
	}
}

// ---- the glue around VirtualHosts.Match ----

var c20Made int

func c20MakeCert(k *keys.X25519KeyPair, leaf, inter *certs.Certificate, kem *keys.KEMKeyPair) (*transport.Certificate, error) {
	c20Made++
	return &transport.Certificate{RawLeaf: []byte{byte(c20Made)}}, nil
}

// NewVirtualHosts turns the configured host blocks into the ordered list that
// Match scans: one entry per block, in configuration order, then the "*"
// fallback - and nothing else (a phantom entry with an empty pattern would
// answer the empty name with no certificate).
//
//verif:prop C20
//verif:replay none
//verif:stub hop.computer/hop/transport.MakeCert = c20MakeCert
//verif:bounds server configuration with 0..3 host blocks (patterns from {"*.example.com", "a", ""}), with or without the top-level key that yields the "*" fallback; certificate parsing replaced by a counter
//verif:cover built
func VH_C20_virtual_host_list_is_exactly_the_configured_blocks_in_order() {
	c20Made = 0
	pats := []string{"*.example.com", "a", ""}
	sc := &config.ServerConfig{}
	n := verifPick("host-blocks", 0, 1, 2, 3)
	for i := 0; i < n; i++ {
		sc.Names = append(sc.Names, config.NameConfig{Pattern: pats[verifPick("pattern", 0, 1, 2)]})
	}
	fallback := verifBool("fallback-key")
	if fallback {
		sc.Key = &keys.X25519KeyPair{}
		sc.Certificate = &certs.Certificate{Type: certs.Leaf}
	}
	vh, err := NewVirtualHosts(sc, nil, nil)
	verifAssert(err == nil, "C20: the virtual-host list is built")
	if err != nil {
		return
	}
	want := n
	if fallback {
		want++
	}
	verifAssert(len(vh) == want, "C20: one virtual host per configured block plus the fallback, and no other entry")
	if len(vh) != want {
		return
	}
	for i := 0; i < n; i++ {
		verifAssert(vh[i].Pattern == sc.Names[i].Pattern && len(vh[i].Certificate.RawLeaf) == 1 && int(vh[i].Certificate.RawLeaf[0]) == i+1, "C20: virtual hosts keep the order and the certificates of the configuration (first match wins)")
	}
	if fallback {
		verifAssert(vh[n].Pattern == "*", "C20: the fallback comes last and matches everything")
	}
	verifCover("built")
}

// The certificate lookup NewHopServer installs: for EVERY requested name -
// any label bytes, any name type (DNS, IPv4, IPv6, raw) - it presents the
// first virtual host whose pattern matches the LABEL.
//
//verif:prop C20
//verif:replay none
//verif:stub hop.computer/hop/hopserver.NewVirtualHosts = c10NewVirtualHosts
//verif:stub net.ListenPacket = c10ListenPacket
//verif:stub hop.computer/hop/transport.NewServer = c10NewServer
//verif:stub hop.computer/hop/hopserver.NewHopServerExt = c10NewHopServerExt
//verif:bounds 0..2 host blocks (patterns from {"*", "10.0.0.*", "a"}); requested name: label "10.0.0.5", "a" or one symbolic byte, type byte over all 256 values
//verif:cover matched;no-match
func VH_C20_server_presents_first_vhost_matching_the_requested_label() {
	c10Hosts = nil
	pats := []string{"*", "10.0.0.*", "a"}
	n := verifPick("host-blocks", 0, 1, 2)
	for i := 0; i < n; i++ {
		c10Hosts = append(c10Hosts, VirtualHost{Pattern: pats[verifPick("pattern", 0, 1, 2)]})
	}
	_, err := NewHopServer(&config.ServerConfig{ListenAddress: "localhost:0", InsecureSkipVerify: true})
	verifAssert(err == nil && c10Captured.GetCertificate != nil, "C20: NewHopServer installs a certificate lookup")
	var label []byte
	switch verifPick("label", 0, 1, 2) {
	case 0:
		label = []byte("10.0.0.5")
	case 1:
		label = []byte("a")
	default:
		label = verifBytes("label-byte", 1)
	}
	name := certs.Name{Label: label, Type: certs.IDType(verifU8("name-type"))}
	c, err := c10Captured.GetCertificate(transport.ClientHandshakeInfo{ServerName: name})
	want := -1
	for i := n - 1; i >= 0; i-- {
		if glob.Glob(c10Hosts[i].Pattern, string(label)) {
			want = i
		}
	}
	if want < 0 {
		verifAssert(err != nil, "C20: no certificate is presented when no pattern matches the requested label")
		verifCover("no-match")
		return
	}
	verifCover("matched")
	verifAssert(err == nil && c == &c10Hosts[want].Certificate, "C20: the server presents the FIRST virtual host whose pattern matches the requested label, whatever the name's type")
}

// C19: hidden mode is what the hidden virtual-host list says it is.
//
//verif:prop C19
//verif:replay none
//verif:stub hop.computer/hop/hopserver.NewVirtualHosts = c10NewVirtualHosts
//verif:stub net.ListenPacket = c10ListenPacket
//verif:stub hop.computer/hop/transport.NewServer = c10NewServer
//verif:stub hop.computer/hop/hopserver.NewHopServerExt = c10NewHopServerExt
//verif:bounds hopd configuration with 0..2 hidden virtual-host names, top-level KEM key present or absent (a hidden host may carry its own)
//verif:cover hidden;discoverable
func VH_C19_transport_server_is_hidden_iff_hidden_vhosts_are_configured() {
	c10Hosts = VirtualHosts{{Pattern: "h"}, {Pattern: "*"}}
	sc := &config.ServerConfig{ListenAddress: "localhost:0", InsecureSkipVerify: true}
	k := verifPick("hidden-vhost-names", 0, 1, 2)
	for i := 0; i < k; i++ {
		sc.HiddenModeVHostNames = append(sc.HiddenModeVHostNames, "h")
	}
	if verifBool("top-level-kem-key") {
		sc.KEMKey = &keys.KEMKeyPair{}
	}
	_, err := NewHopServer(sc)
	verifAssert(err == nil, "C19: NewHopServer succeeds")
	verifAssert(c10Captured.IsHidden == (k > 0), "C19: the transport server runs hidden (silent to everything but hidden requests) exactly when hidden virtual hosts are configured - a hidden host must never be served by a discoverable server that answers ClientHellos")
	verifAssert(len(c10Captured.HiddenModeVHostNames) == k, "C19: the hidden virtual-host names reach the transport server")
	// the transport calls GetCertList for EVERY hidden-request datagram, hidden
	// server or not: it must exist, and for a hidden server it yields exactly
	// the FIRST virtual host matching each hidden name (never the "*" fallback
	// behind it, whose KEM key must not open hidden requests)
	verifAssert(c10Captured.GetCertList != nil, "C10: the certificate-list callback is installed in every configuration (the transport calls it for any datagram typed as a hidden request)")
	if c10Captured.GetCertList != nil {
		list, lerr := c10Captured.GetCertList()
		if k == 0 {
			verifAssert(lerr != nil || len(list) == 0, "C19: a server without hidden virtual hosts offers no certificate to hidden requests")
		} else {
			verifAssert(lerr == nil && len(list) == k, "C19: one certificate per hidden virtual-host name")
			for _, c := range list {
				verifAssert(c == &c10Hosts[0].Certificate, "C19: hidden requests are tried only against the virtual host the hidden name designates (first match), never against the fallback host behind it")
			}
		}
	}
	if k > 0 {
		verifCover("hidden")
	} else {
		verifCover("discoverable")
	}
}

// C01 / C05: the transport-layer client policy the hop server runs with is what
// its configuration says - for all 16 combinations of the four switches.
//
//verif:prop C01
//verif:replay none
//verif:stub hop.computer/hop/hopserver.NewVirtualHosts = c10NewVirtualHosts
//verif:stub net.ListenPacket = c10ListenPacket
//verif:stub hop.computer/hop/transport.NewServer = c10NewServer
//verif:bounds InsecureSkipVerify, DisableCertificateValidation, EnableAuthgrants, EnableAuthorizedKeys each on or off (no users preloaded); real NewHopServer and NewHopServerExt (which CA certificates end up in the store is not observable from outside the certs package and is not asserted)
//verif:cover built
func VH_C01_client_verification_policy_follows_the_server_configuration() { c01Policy("C01") }

//verif:prop C05
//verif:replay none
//verif:stub hop.computer/hop/hopserver.NewVirtualHosts = c10NewVirtualHosts
//verif:stub net.ListenPacket = c10ListenPacket
//verif:stub hop.computer/hop/transport.NewServer = c10NewServer
//verif:bounds as VH_C01_client_verification_policy_follows_the_server_configuration
//verif:cover built
func VH_C05_grant_keys_are_admitted_by_the_transport_only_when_grants_are_enabled() { c01Policy("C05") }

func c01Policy(prop string) {
	c10Hosts = VirtualHosts{{Pattern: "*"}}
	sc := &config.ServerConfig{ListenAddress: "localhost:0"}
	sc.InsecureSkipVerify = verifBool("InsecureSkipVerify")
	sc.DisableCertificateValidation = verifBool("DisableCertificateValidation")
	sc.EnableAuthgrants = verifBool("EnableAuthgrants")
	sc.EnableAuthorizedKeys = verifBool("EnableAuthorizedKeys")
	s, err := NewHopServer(sc)
	verifAssert(err == nil && s != nil, prop+": the hop server is built")
	if err != nil || s == nil {
		return
	}
	verifCover("built")
	v := c10Captured.ClientVerify
	verifAssert(v != nil, prop+": the transport server always gets a client-verification policy object")
	if v == nil {
		return
	}
	verifAssert(v.InsecureSkipVerify == sc.InsecureSkipVerify, prop+": client certificates are left unverified iff the configuration says InsecureSkipVerify")
	verifAssert(v.CurrentTime.IsZero(), prop+": the policy of a long-lived server carries no fixed clock reading (each certificate is judged at the time of its handshake, not at server start)")
	keysOn := !sc.InsecureSkipVerify && (sc.EnableAuthgrants || sc.EnableAuthorizedKeys)
	verifAssert(v.AuthKeysAllowed == keysOn, prop+": bare keys (authorized_keys entries, grant keys) are admitted at the transport layer iff authorized keys or grants are enabled")
	verifAssert((v.AuthKeys != nil) == keysOn, prop+": a key set exists iff bare keys are admitted")
	if keysOn {
		// a grant issued later must admit its key at the transport layer: the
		// hop server's key store IS the transport's key set
		verifAssert(s.keyStore == v.AuthKeys, prop+": the key set the hop server adds grant keys to is the one the transport consults")
	}
}

//verif:prop C10
//verif:replay none
//verif:stub hop.computer/hop/hopserver.NewVirtualHosts = c10NewVirtualHosts
//verif:stub net.ListenPacket = c10ListenPacket
//verif:stub hop.computer/hop/transport.NewServer = c10NewServer
//verif:stub hop.computer/hop/hopserver.NewHopServerExt = c10NewHopServerExt
//verif:bounds as VH_C19_transport_server_is_hidden_iff_hidden_vhosts_are_configured
//verif:cover hidden;discoverable
func VH_C10_every_callback_the_transport_calls_is_installed_in_every_configuration() {
	VH_C19_transport_server_is_hidden_iff_hidden_vhosts_are_configured()
}
