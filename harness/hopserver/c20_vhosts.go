package hopserver

// C20 (consequence) — a server presents the first virtual host whose pattern
// matches the requested name.

//verif:prop C20
//verif:bounds <=3 virtual hosts, pattern of each one of two matching globs / non-matching / literal name; name fixed "host.example" or empty; real glob.Glob
//verif:cover first;later;none;empty-name
func VH_C20_vhosts_first_match() {
	name := "host.example"
	if verifBool("empty-name") {
		name = ""
		verifCover("empty-name")
	}
	n := int(verifU8("nvhosts") % 4)
	var vh VirtualHosts
	want := -1
	for i := 0; i < n; i++ {
		var p string
		var m bool
		switch verifU8("pattern") % 4 {
		case 0:
			p, m = "*", true
		case 1:
			p, m = "h*e", name != ""
		case 2:
			p, m = "host.example", name != ""
		default:
			p, m = "x*", false
		}
		vh = append(vh, VirtualHost{Pattern: p})
		if m && want < 0 {
			want = i
		}
	}
	got := vh.Match(name)
	if want < 0 {
		verifAssert(got == nil, "C20: VirtualHosts.Match returns nil when no pattern matches")
		verifCover("none")
	} else {
		verifAssert(got == &vh[want], "C20: VirtualHosts.Match returns the first matching virtual host")
		if want == 0 {
			verifCover("first")
		} else {
			verifCover("later")
		}
	}
}
