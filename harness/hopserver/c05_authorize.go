package hopserver

import (
	"encoding/base64"
	"errors"
	"io"
	"io/fs"
	"time"

	"hop.computer/hop/authgrants"
	"hop.computer/hop/authkeys"
	"hop.computer/hop/certs"
	"hop.computer/hop/common"
	"hop.computer/hop/config"
	"hop.computer/hop/core"
	"hop.computer/hop/keys"
	"hop.computer/hop/transport"
	"hop.computer/hop/tubes"
	"hop.computer/hop/userauth"
)

// C05 — user login only by a listed key or a live grant, failing closed.

type c05File struct{}

func (c05File) Stat() (fs.FileInfo, error) { return nil, errors.New("no stat") }
func (c05File) Read(p []byte) (int, error) { return 0, io.EOF }
func (c05File) Close() error               { return nil }

var c05 struct {
	lookupFails bool
	openFails   bool
	parseFails  bool
	opened      int
	parsed      int
	keys        core.AuthorizedKeys
}

type c05FS struct{}

func (c05FS) Open(name string) (fs.File, error) {
	c05.opened++
	if c05.openFails {
		return nil, fs.ErrNotExist
	}
	return c05File{}, nil
}

func c05UserDirectoryFor(user string) (string, error) {
	if c05.lookupFails {
		return "", errors.New("no such user")
	}
	return "/home/u/.hop", nil
}

func c05ParseAuthorizedKeys(r io.Reader) (core.AuthorizedKeys, error) {
	c05.parsed++
	if c05.parseFails {
		return nil, errors.New("malformed authorized_keys line")
	}
	return c05.keys, nil
}

func c05Key(tag string) keys.DHPublicKey {
	var k keys.DHPublicKey
	copy(k[:], verifBytes(tag, 32))
	return k
}

// AuthorizeKey returns nil only if the user exists, the file opened, EVERY line
// parsed, and the key is one of the parsed entries. Any failure on the way is a
// refusal (fail closed).
//
//verif:prop C05
//verif:stub hop.computer/hop/config.UserDirectoryFor = c05UserDirectoryFor
//verif:stub hop.computer/hop/core.ParseAuthorizedKeys = c05ParseAuthorizedKeys
//verif:replay none
//verif:bounds user lookup / file open / file parse each succeed or fail nondeterministically; parsed file holds 0..2 fully symbolic 32-byte keys; client key fully symbolic
//verif:cover granted;refused-not-listed;refused-parse-error;refused-open-error
func VH_C05_authorizekey_fails_closed() {
	c05.lookupFails, c05.openFails, c05.parseFails = verifBool("lookup-fails"), verifBool("open-fails"), verifBool("parse-fails")
	n := verifPick("listed-keys", 0, 1, 2)
	for i := 0; i < n; i++ {
		c05.keys = append(c05.keys, c05Key("listed"))
	}
	pk := c05Key("client-key")
	s := &HopServer{fsystem: c05FS{}, config: &config.ServerConfig{}}
	err := s.AuthorizeKey("alice", pk)
	listed := false
	for _, k := range c05.keys {
		listed = verifOr(listed, k == pk)
	}
	should := verifAnd(verifAnd(!c05.lookupFails, !c05.openFails), verifAnd(!c05.parseFails, listed))
	verifAssert((err == nil) == should, "C05: AuthorizeKey grants access iff the file opened, every line parsed, and the key is listed (a missing, unreadable or malformed file never widens access)")
	switch {
	case err == nil:
		verifCover("granted")
	case c05.parseFails && !c05.openFails && !c05.lookupFails:
		verifCover("refused-parse-error")
	case c05.openFails && !c05.lookupFails:
		verifCover("refused-open-error")
	case !listed:
		verifCover("refused-not-listed")
	}
}

// The real parser on files assembled from line kinds: a file grants a key only
// if every non-blank line is a well-formed entry and one of them is the key.
//
//verif:prop C05
//verif:bounds authorized_keys file of 0..3 lines, each one of: the client's key, another valid key, blank, whitespace, comment, wrong prefix, truncated base64, valid entry with trailing garbage, payload of 33 bytes (client's key + 1), payload of 31 bytes; real bufio.Scanner / TrimSpace / ParseDHPublicKey / base64 on those concrete texts; client key = key A or key C (unlisted)
//verif:cover granted;refused
//verif:timeout 600
func VH_C05_parser_accepts_only_wellformed_files() {
	var a, b, c keys.DHPublicKey
	for i := range a {
		a[i], b[i], c[i] = byte(i+1), byte(0xA0+i), byte(0x55)
	}
	text := ""
	allOK := true
	hasA := false
	n := verifPick("lines", 0, 1, 2, 3)
	for i := 0; i < n; i++ {
		switch verifPick("line-kind", 0, 1, 2, 3, 4, 5, 6, 7, 8, 9) {
		case 0:
			text += a.String() + "\n"
			hasA = true
		case 1:
			text += "  " + b.String() + "  \n"
		case 2:
			text += "\n"
		case 3:
			text += "   \t \n"
		case 4:
			text += "# a comment\n"
			allOK = false
		case 5:
			text += "hop-sign-v1-" + a.String()[len(keys.DHPublicKeyPrefix):] + "\n"
			allOK = false
		case 6:
			s := a.String()
			text += s[:len(s)-5] + "\n"
			allOK = false
		case 7:
			text += a.String() + " trailing\n"
			allOK = false
		case 8:
			// decodes to 33 bytes whose first 32 are the client's key
			text += keys.DHPublicKeyPrefix + base64.StdEncoding.EncodeToString(append(a[:], 0x77)) + "\n"
			allOK = false
		case 9:
			// decodes to 31 bytes
			text += keys.DHPublicKeyPrefix + base64.StdEncoding.EncodeToString(a[:31]) + "\n"
			allOK = false
		}
	}
	if verifBool("no-final-newline") && len(text) > 0 {
		text = text[:len(text)-1]
	}
	pk := a
	wantA := true
	if verifBool("unlisted-client") {
		pk, wantA = c, false
	}
	ak, err := core.ParseAuthorizedKeys(&c05Reader{s: text})
	granted := err == nil && ak.Allowed(pk)
	verifAssert(granted == (allOK && hasA && wantA), "C05: a key is granted by a file only if every non-blank line is well-formed and one of them is that key")
	if granted {
		verifCover("granted")
	} else {
		verifCover("refused")
	}
}

type c05Reader struct {
	s   string
	off int
}

func (r *c05Reader) Read(p []byte) (int, error) {
	if r.off >= len(r.s) {
		return 0, io.EOF
	}
	n := copy(p, r.s[r.off:])
	r.off += n
	return n, nil
}

// Grants: AuthorizeKeyAuthGrant hands out grants only when enabled, only for
// exactly (user, key), removes them and the transport-layer key.
//
//verif:prop C05
//verif:bounds history of 0..3 AddAuthGrant operations over users {alice,bob} x keys with one symbolic byte, grant type/start/expiry/command symbolic, then one AuthorizeKeyAuthGrant(user,key), a second identical one, one more grant and a third login; authgrants enabled or not
//verif:cover granted;refused;disabled
func VH_C05_grant_fallback_exact_user_and_key_once() { c05GrantFallback("C05") }

func c05GrantFallback(prop string) {
	enabled := verifBool("authgrants-enabled")
	s := &HopServer{config: &config.ServerConfig{EnableAuthgrants: enabled}, agMap: authgrants.NewAuthgrantMapSync(), keyStore: authkeys.NewSyncAuthKeySet()}
	users := []string{"alice", "bob"}
	n := verifPick("grants", 0, 1, 2, 3)
	var gUser [3]int
	var gKey [3]byte
	var gIntent [3]*authgrants.Intent
	for i := 0; i < n; i++ {
		gUser[i] = verifPick("grant-user", 0, 1)
		gKey[i] = verifU8("grant-key")
		in := &authgrants.Intent{TargetUsername: users[gUser[i]], GrantType: authgrants.GrantType(verifU8("grant-type")), StartTime: time.Unix(int64(verifU32("grant-start")), 0), ExpTime: time.Unix(int64(verifU32("grant-exp")), 0)}
		in.AssociatedData.CommandGrantData.Cmd = verifString("grant-cmd", 1)
		in.DelegateCert.PublicKey[0] = gKey[i]
		gIntent[i] = in
		s.agMap.AddAuthGrant(in, authgrants.PrincipalID(i+1))
		s.keyStore.AddKey(in.DelegateCert.PublicKey)
	}
	u := verifPick("login-user", 0, 1)
	var pk keys.DHPublicKey
	pk[0] = verifU8("login-key")
	ags, err := s.AuthorizeKeyAuthGrant(users[u], pk)
	want := 0
	var wantIdx []int
	for i := 0; i < n; i++ {
		if gUser[i] == u && gKey[i] == pk[0] {
			want++
			wantIdx = append(wantIdx, i)
		}
	}
	if !enabled {
		verifAssert(err != nil && len(ags) == 0, prop+": grants are not consulted when authorization grants are disabled")
		verifCover("disabled")
		return
	}
	verifAssert((err == nil) == (want > 0), prop+": a grant login succeeds iff an unconsumed grant exists for exactly that user and key")
	if err == nil {
		verifCover("granted")
		verifAssert(len(ags) == want, prop+": exactly the grants of that user and key are handed out")
		for j, g := range ags {
			verifAssert(g.DelegateCert.PublicKey == pk, prop+": every grant handed out names the connecting key")
			if j < len(wantIdx) {
				in := gIntent[wantIdx[j]]
				same := verifAnd(g.GrantType == in.GrantType, verifAnd(g.StartTime.Equal(in.StartTime), g.ExpTime.Equal(in.ExpTime)))
				same = verifAnd(same, verifAnd(verifStrEq(g.AssociatedData.CommandGrantData.Cmd, in.AssociatedData.CommandGrantData.Cmd), g.PrincipalID == authgrants.PrincipalID(wantIdx[j]+1)))
				verifAssert(same, prop+": a stored grant keeps the type, start, expiry, command and principal of the intent it was issued for")
			}
		}
		_, err2 := s.AuthorizeKeyAuthGrant(users[u], pk)
		verifAssert(err2 != nil, prop+": grants disappear once consumed")
		// a grant added afterwards is handed out alone
		in := &authgrants.Intent{TargetUsername: users[u], GrantType: authgrants.Command, ExpTime: time.Unix(2000000000, 0)}
		in.DelegateCert.PublicKey = pk
		s.agMap.AddAuthGrant(in, 9)
		s.keyStore.AddKey(pk)
		ags3, err3 := s.AuthorizeKeyAuthGrant(users[u], pk)
		verifAssert(err3 == nil && len(ags3) == 1, prop+": consumed grants do not come back with a later grant for the same key")
	} else {
		verifCover("refused")
	}
}

// The same history harness under C07: grants are usable only by the key they
// name, keep the fields (type, window, command) they were issued with and
// disappear once consumed.
//
//verif:prop C07
//verif:bounds as VH_C05_grant_fallback_exact_user_and_key_once
//verif:cover granted;refused;disabled
func VH_C07_stored_grants_keep_their_fields_and_go_to_their_key_once() { c05GrantFallback("C07") }

// Histories on ONE running server: what a login decides depends on the
// authorized_keys file as it is NOW - a key that was listed at an earlier login
// and has since been removed (or whose file has become unreadable or
// malformed) is refused. Nothing an earlier login saw may widen access later.
//
//verif:prop C05
//verif:stub hop.computer/hop/config.UserDirectoryFor = c05UserDirectoryFor
//verif:stub hop.computer/hop/core.ParseAuthorizedKeys = c05ParseAuthorizedKeys
//verif:replay none
//verif:bounds two consecutive logins of the same user on one server; first: file lists 1 symbolic key, login with that key or another one; then the file changes arbitrarily (0..2 symbolic keys; lookup / open / parse may now fail); second login with a symbolic key
//verif:cover second-granted;second-refused;revoked-key-refused
func VH_C05_a_login_is_decided_by_the_file_as_it_is_now() {
	s := &HopServer{fsystem: c05FS{}, config: &config.ServerConfig{}}
	first := c05Key("listed-at-first-login")
	c05.keys = core.AuthorizedKeys{first}
	pk1 := first
	if verifBool("first-login-with-another-key") {
		pk1 = c05Key("first-client-key")
	}
	_ = s.AuthorizeKey("alice", pk1)
	// the file changes
	c05.lookupFails, c05.openFails, c05.parseFails = verifBool("lookup-fails"), verifBool("open-fails"), verifBool("parse-fails")
	c05.keys = nil
	n := verifPick("listed-keys-now", 0, 1, 2)
	for i := 0; i < n; i++ {
		c05.keys = append(c05.keys, c05Key("listed-now"))
	}
	pk := c05Key("client-key")
	err := s.AuthorizeKey("alice", pk)
	listed := false
	for _, k := range c05.keys {
		listed = verifOr(listed, k == pk)
	}
	should := verifAnd(verifAnd(!c05.lookupFails, !c05.openFails), verifAnd(!c05.parseFails, listed))
	verifAssert((err == nil) == should, "C05: a login is granted iff the authorized_keys file, as it is at that login, opens, parses completely and lists the key (a key removed since an earlier login is refused)")
	if err == nil {
		verifCover("second-granted")
	} else {
		verifCover("second-refused")
		if pk == first {
			verifCover("revoked-key-refused")
		}
	}
}

// ---- the login decision as a whole: hopSession.checkAuthorization ----

var c05g struct {
	tubeType   byte
	user       string
	leaf       *certs.Certificate
	akOK, agOK bool
	akUser     string
	akKey      keys.DHPublicKey
	akCalls    int
	agUser     string
	agKey      keys.DHPublicKey
	agCalls    int
	wrote      []byte
}

func c05Accept(m *tubes.Muxer) (tubes.Tube, error) { return &tubes.Reliable{}, nil }
func c05TubeType(r *tubes.Reliable) tubes.TubeType { return tubes.TubeType(c05g.tubeType) }
func c05TubeClose(r *tubes.Reliable) error         { return nil }
func c05TubeWrite(r *tubes.Reliable, b []byte) (int, error) {
	c05g.wrote = append(c05g.wrote, b...)
	return len(b), nil
}
func c05GetInitMsg(r *tubes.Reliable) string              { return c05g.user }
func c05FetchLeaf(h *transport.Handle) *certs.Certificate { return c05g.leaf }
func c05AuthorizeKey(s *HopServer, user string, k keys.DHPublicKey) error {
	c05g.akCalls++
	c05g.akUser, c05g.akKey = user, k
	if c05g.akOK {
		return nil
	}
	return errors.New("key not authorized")
}
func c05AuthorizeKeyAuthGrant(s *HopServer, user string, k keys.DHPublicKey) ([]authgrants.Authgrant, error) {
	c05g.agCalls++
	c05g.agUser, c05g.agKey = user, k
	if c05g.agOK {
		return []authgrants.Authgrant{{GrantType: authgrants.Shell}}, nil
	}
	return nil, errors.New("no grant")
}

// The server lets the client act as the requested user iff its AUTHENTICATED
// key is listed for that user, or grants are enabled and a grant exists for
// exactly that user and key; the confirmation byte is sent iff so, and the
// session remembers whether it was admitted through grants.
//
//verif:prop C05
//verif:replay none
//verif:stub (*hop.computer/hop/tubes.Muxer).Accept = c05Accept
//verif:stub (*hop.computer/hop/tubes.Reliable).Type = c05TubeType
//verif:stub (*hop.computer/hop/tubes.Reliable).Close = c05TubeClose
//verif:stub (*hop.computer/hop/tubes.Reliable).Write = c05TubeWrite
//verif:stub hop.computer/hop/userauth.GetInitMsg = c05GetInitMsg
//verif:stub (*hop.computer/hop/transport.Handle).FetchClientLeaf = c05FetchLeaf
//verif:stub (*hop.computer/hop/hopserver.HopServer).AuthorizeKey = c05AuthorizeKey
//verif:stub (*hop.computer/hop/hopserver.HopServer).AuthorizeKeyAuthGrant = c05AuthorizeKeyAuthGrant
//verif:bounds first accepted tube of symbolic type (all 256 values); requested user name of 0..2 symbolic bytes; authenticated client key symbolic; authorized-keys verdict and grant verdict nondeterministic; authorization grants enabled or disabled
//verif:cover admitted-by-key;admitted-by-grant;refused
func VH_C05_login_is_decided_by_listed_key_or_live_grant_for_the_authenticated_key() {
	c05g.akCalls, c05g.agCalls, c05g.wrote = 0, 0, nil
	c05g.tubeType = verifU8("first-tube-type")
	c05g.user = verifString("requested-user", verifPick("user-len", 0, 1, 2))
	c05g.leaf = &certs.Certificate{}
	copy(c05g.leaf.PublicKey[:], verifBytes("authenticated-client-key", 32))
	c05g.akOK, c05g.agOK = verifBool("listed-in-authorized-keys"), verifBool("grant-exists")
	enabled := verifBool("authgrants-enabled")
	sess := &hopSession{server: &HopServer{config: &config.ServerConfig{EnableAuthgrants: enabled}}, transportConn: &transport.Handle{}, tubeMuxer: &tubes.Muxer{}}
	ok := sess.checkAuthorization()
	isUA := c05g.tubeType == byte(common.UserAuthTube)
	should := verifAnd(isUA, verifOr(c05g.akOK, verifAnd(enabled, c05g.agOK)))
	verifAssert(ok == should, "C05: the client may act as the user iff its first tube is a user-authentication request and its key is listed, or grants are enabled and a grant exists")
	confirmed := len(c05g.wrote) > 0 && c05g.wrote[0] == userauth.UserAuthConf
	verifAssert(confirmed == ok, "C05: the confirmation byte is sent iff the login was granted")
	if c05g.akCalls > 0 {
		verifAssert(verifAnd(verifStrEq(c05g.akUser, c05g.user), c05g.akKey == keys.DHPublicKey(c05g.leaf.PublicKey)), "C05: authorized_keys is consulted for the requested user and the key the transport authenticated")
	}
	if c05g.agCalls > 0 {
		verifAssert(enabled, "C05: grants are consulted only when enabled")
		verifAssert(verifAnd(verifStrEq(c05g.agUser, c05g.user), c05g.agKey == keys.DHPublicKey(c05g.leaf.PublicKey)), "C05: grants are consulted for exactly the requested user and the authenticated key")
	}
	if ok {
		verifAssert(verifStrEq(sess.user, c05g.user), "C05: the session runs as the requested user")
		verifAssert((len(sess.authorizedActions) > 0) == !c05g.akOK, "C05: a session admitted through grants carries exactly those grants, a session admitted by its key none (C07's gates depend on it)")
		if c05g.akOK {
			verifCover("admitted-by-key")
		} else {
			verifCover("admitted-by-grant")
		}
	} else {
		verifCover("refused")
	}
}

// The parser sees the WHOLE authorized_keys file: whatever its size, every byte
// the file holds is offered to the parser (a silent cut could end the file right
// after a complete entry and hide the malformed rest that must make it fail
// closed).

type c05BigFile struct {
	size, off int
}

func (f *c05BigFile) Stat() (fs.FileInfo, error) { return nil, errors.New("no stat") }
func (f *c05BigFile) Close() error               { return nil }
func (f *c05BigFile) Read(p []byte) (int, error) {
	if f.off >= f.size {
		return 0, io.EOF
	}
	n := len(p)
	if n > f.size-f.off {
		n = f.size - f.off
	}
	f.off += n
	return n, nil
}

type c05BigFS struct{ f *c05BigFile }

func (s c05BigFS) Open(name string) (fs.File, error) { return s.f, nil }

var c05Seen int

func c05CountingParser(r io.Reader) (core.AuthorizedKeys, error) {
	buf := make([]byte, 32768)
	for i := 0; i < 64; i++ {
		n, err := r.Read(buf)
		c05Seen += n
		if err != nil {
			break
		}
	}
	return nil, errors.New("stop")
}

//verif:prop C05
//verif:stub hop.computer/hop/config.UserDirectoryFor = c05UserDirectoryFor
//verif:stub hop.computer/hop/core.ParseAuthorizedKeys = c05CountingParser
//verif:replay none
//verif:bounds authorized_keys file of symbolic size 0..1 MiB (contents irrelevant); the parser is replaced by a reader that counts the bytes it is offered
//verif:cover read
func VH_C05_the_whole_authorized_keys_file_reaches_the_parser() {
	c05.lookupFails = false
	c05Seen = 0
	size := verifInt("file-size")
	verifAssume(size >= 0 && size <= 1<<20)
	s := &HopServer{fsystem: c05BigFS{&c05BigFile{size: size}}, config: &config.ServerConfig{}}
	var pk keys.DHPublicKey
	_ = s.AuthorizeKey("alice", pk)
	verifCover("read")
	verifAssert(c05Seen == size, "C05: every byte of the authorized_keys file is offered to the parser (no silent size cut that could hide a malformed tail)")
}

// AddAuthGrant reports success iff the grant really is in the server's maps: a
// target that answers "confirmed" must be able to honour the grant (C06) and a
// refused grant must leave nothing behind.
//
//verif:prop C06
//verif:bounds hop server with authorization grants enabled or not, with or without a transport-layer key set (InsecureSkipVerify servers have none); one intent with symbolic user byte and key byte
//verif:cover stored;refused
func VH_C06_target_reports_a_grant_stored_only_if_it_is_stored() {
	enabled := verifBool("authgrants-enabled")
	s := &HopServer{config: &config.ServerConfig{EnableAuthgrants: enabled}, agMap: authgrants.NewAuthgrantMapSync()}
	if verifBool("has-key-set") {
		s.keyStore = authkeys.NewSyncAuthKeySet()
	}
	in := &authgrants.Intent{TargetUsername: verifString("user", 1), GrantType: authgrants.Shell, ExpTime: time.Unix(2000000000, 0)}
	in.DelegateCert.PublicKey[0] = verifU8("delegate-key")
	err := s.AddAuthGrant(in)
	got, gerr := s.agMap.RemoveAuthgrants(in.TargetUsername, in.DelegateCert.PublicKey)
	if err == nil {
		verifCover("stored")
		verifAssert(gerr == nil && len(got) == 1, "C06: when the target reports a grant as stored (and confirms it to the principal), the grant is in its grant map")
		verifAssert(enabled, "C06: grants are stored only when enabled")
	} else {
		verifCover("refused")
		verifAssert(gerr != nil || len(got) == 0, "C06: a refused grant leaves nothing behind")
	}
}

// Two logins whose file reads overlap. The engine is sequential, so the
// overlap is scripted: the outer login's authorized_keys file hands control to
// a second, complete login at one of its Read boundaries (before or after the
// bytes were copied out) — exactly what a goroutine switch at that point does.
// Each login must be decided by its own user's file alone.

type c05SwitchFile struct {
	s        *HopServer
	text     string
	off      int
	at       int // the Read call (1-based) at which the other login runs; 0 = never
	after    bool
	reads    int
	user     string
	key      keys.DHPublicKey
	otherErr error
	ran      bool
}

func (f *c05SwitchFile) Stat() (fs.FileInfo, error) { return nil, errors.New("no stat") }
func (f *c05SwitchFile) Close() error               { return nil }
func (f *c05SwitchFile) other() {
	f.ran = true
	f.otherErr = f.s.AuthorizeKey(f.user, f.key)
}
func (f *c05SwitchFile) Read(p []byte) (int, error) {
	f.reads++
	here := f.reads == f.at && !f.ran
	if here && !f.after {
		f.other()
	}
	if f.off >= len(f.text) {
		if here && f.after {
			f.other()
		}
		return 0, io.EOF
	}
	n := copy(p, f.text[f.off:])
	f.off += n
	if here && f.after {
		f.other()
	}
	return n, nil
}

type c05TwoFS struct {
	outerUser string
	outer     *c05SwitchFile
	text      [2]string
}

func (t *c05TwoFS) Open(name string) (fs.File, error) {
	u := 1
	if len(name) >= 10 && name[:10] == "home/user0" {
		u = 0
	}
	if t.outer != nil && !t.outer.ran && t.outer.reads == 0 && t.outer.off == 0 && name == t.outerUser {
		return t.outer, nil
	}
	return &c05Reader2{c05Reader{s: t.text[u]}}, nil
}

type c05Reader2 struct{ c05Reader }

func (c *c05Reader2) Stat() (fs.FileInfo, error) { return nil, errors.New("no stat") }
func (c *c05Reader2) Close() error               { return nil }

func c05UserDirByName(user string) (string, error) { return "/home/" + user + "/.hop", nil }

//verif:prop C05
//verif:stub hop.computer/hop/config.UserDirectoryFor = c05UserDirByName
//verif:replay none
//verif:bounds two users, each with a one-line authorized_keys file listing their own (concrete) key; an outer login (user 0|1, presenting key 0|1) whose file read is interrupted at its 1st or 2nd Read call, before or after the bytes are copied, by a complete second login (user 0|1, key 0|1); real AuthorizeKey + ParseAuthorizedKeys + bufio.Scanner; one scripted context switch, not all interleavings
//verif:cover outer-granted;outer-refused;inner-granted;inner-refused
func VH_C05_overlapping_logins_are_each_decided_by_their_own_file() {
	var k [2]keys.DHPublicKey
	for i := range k[0] {
		k[0][i], k[1][i] = byte(i+1), byte(0xA0+i)
	}
	fsys := &c05TwoFS{}
	fsys.text[0] = k[0].String() + "\n"
	fsys.text[1] = k[1].String() + "\n"
	s := &HopServer{fsystem: fsys, config: &config.ServerConfig{}}
	ou, ok := verifPick("outer-user", 0, 1), verifPick("outer-key", 0, 1)
	iu, ik := verifPick("inner-user", 0, 1), verifPick("inner-key", 0, 1)
	users := [2]string{"user0", "user1"}
	f := &c05SwitchFile{s: s, text: fsys.text[ou], at: verifPick("switch-at-read", 1, 2), after: verifBool("switch-after-copy"), user: users[iu], key: k[ik]}
	fsys.outer = f
	fsys.outerUser = "home/" + users[ou] + "/.hop/authorized_keys"
	err := s.AuthorizeKey(users[ou], k[ok])
	verifAssert(f.ran, "harness: the second login ran")
	verifAssert((err == nil) == (ou == ok), "C05: a login that overlaps another user's login is granted iff its key is listed in its own user's file")
	verifAssert((f.otherErr == nil) == (iu == ik), "C05: the overlapping login is granted iff its key is listed in its own user's file")
	if err == nil {
		verifCover("outer-granted")
	} else {
		verifCover("outer-refused")
	}
	if f.otherErr == nil {
		verifCover("inner-granted")
	} else {
		verifCover("inner-refused")
	}
}
