package hopserver

import (
	"errors"
	"net"
	"os"
	"os/exec"

	"github.com/AstromechZA/etcpwdparse"
	"github.com/creack/pty"

	"hop.computer/hop/pkg/thunks"
	"hop.computer/hop/tubes"
)

// C11 — a peer that stalls inside its execution request wedges nobody else.
// The engine is sequential, so the overlap of two sessions is scripted: while
// session A's startCodex waits for the rest of its peer's request (GetCmd), a
// second session's startCodex runs to completion. If anything server-wide is
// held across A's wait, B blocks - reported through verifBlockingIsViolation.

var c11s struct {
	other   *hopSession
	calls   int
	started int
	fails   int
}

func c11GetCmd(c net.Conn) (string, string, bool, *pty.Winsize, error) {
	c11s.calls++
	if c11s.calls == 1 {
		// session A's peer has sent part of its request and stalls: another
		// session is served meanwhile
		c11s.other.startCodex(&tubes.Reliable{}, &tubes.Reliable{})
		return "", "", false, nil, errors.New("peer went away")
	}
	return "x", "xterm", false, nil, nil
}
func c11SendFailure(t *tubes.Reliable, err error) { c11s.fails++ }
func c11ExecCommand(name string, arg ...string) *exec.Cmd {
	return &exec.Cmd{Path: name, Args: append([]string{name}, arg...)}
}
func c11GetGroups(uid int) []uint32 { return []uint32{uint32(uid)} }
func c11LookupUser(username string) (*etcpwdparse.EtcPasswdEntry, error) {
	e, err := etcpwdparse.ParsePasswdLine(username + ":x:1000:1000::/home/" + username + ":/bin/sh")
	return &e, err
}
func c11StartCmd(c *exec.Cmd) error {
	c11s.started++
	return errors.New("no processes in the harness")
}

//verif:prop C11
//verif:replay none
//verif:restub hop.computer/hop/codex.GetCmd = c11GetCmd
//verif:stub hop.computer/hop/codex.SendFailure = c11SendFailure
//verif:stub os/exec.Command = c11ExecCommand
//verif:stub hop.computer/hop/hopserver.getGroups = c11GetGroups
//verif:stub (*hop.computer/hop/tubes.Reliable).GetID = c07TubeID
//verif:bounds one server, two key-authenticated sessions; session A's execution request never completes (GetCmd waits, then fails), and during that wait session B's complete request (command "x", no pty) is handled up to the process start (thunks.StartCmd, stubbed to fail); one scripted overlap, not all interleavings
//verif:cover served
func VH_C11_a_stalled_execution_request_does_not_wedge_other_sessions() {
	thunks.LookupUser = c11LookupUser
	thunks.StartCmd = c11StartCmd
	s := &HopServer{dpProxy: &agProxy{principals: map[int32]sessID{}}}
	a := &hopSession{server: s, ID: 1, user: "alice", pty: make(chan *os.File, 1)}
	b := &hopSession{server: s, ID: 2, user: "bob", pty: make(chan *os.File, 1)}
	c11s.other = b
	verifBlockingIsViolation()
	a.startCodex(&tubes.Reliable{}, &tubes.Reliable{})
	verifCover("served")
	verifAssert(c11s.calls == 2, "harness: both requests were read")
	verifAssert(c11s.started == 1, "C11: while one session's peer stalls inside its execution request, another session's command still reaches the process start (nothing server-wide is held across a peer-controlled wait)")
	verifAssert(c11s.fails == 2, "C11: both sessions get their one answer")
}

func c11GetCmdPlain(c net.Conn) (string, string, bool, *pty.Winsize, error) {
	c11s.calls++
	return "x", "xterm", false, nil, nil
}

// A peer that sends a SECOND execution request on its session (the hop client
// never does; a modified one can): the session's one-slot pty channel still
// holds the first request's entry unless a window-size tube drained it. The
// second request must not wait for that slot while holding the server-wide
// principal lock, or no other session of the server can start anything.
//
//verif:prop C11
//verif:replay none
//verif:stub hop.computer/hop/codex.GetCmd = c11GetCmdPlain
//verif:stub hop.computer/hop/codex.SendFailure = c11SendFailure
//verif:stub os/exec.Command = c11ExecCommand
//verif:stub hop.computer/hop/hopserver.getGroups = c11GetGroups
//verif:stub (*hop.computer/hop/tubes.Reliable).GetID = c07TubeID
//verif:bounds one server, two key-authenticated sessions; session A sends two complete execution requests (command "x", no pty, no window-size tube in between), then session B sends one; each is handled up to the process start (thunks.StartCmd, stubbed to fail); sequential
//verif:cover served
func VH_C11_a_second_execution_request_on_a_session_does_not_wedge_the_server() {
	thunks.LookupUser = c11LookupUser
	thunks.StartCmd = c11StartCmd
	s := &HopServer{dpProxy: &agProxy{principals: map[int32]sessID{}}}
	a := &hopSession{server: s, ID: 1, user: "alice", pty: make(chan *os.File, 1)}
	b := &hopSession{server: s, ID: 2, user: "bob", pty: make(chan *os.File, 1)}
	verifBlockingIsViolation()
	a.startCodex(&tubes.Reliable{}, &tubes.Reliable{})
	a.startCodex(&tubes.Reliable{}, &tubes.Reliable{})
	b.startCodex(&tubes.Reliable{}, &tubes.Reliable{})
	verifCover("served")
	verifAssert(c11s.started == 3, "C11: a second execution request on one session neither waits forever nor keeps other sessions from starting their commands")
}
