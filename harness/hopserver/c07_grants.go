package hopserver

import (
	"errors"
	"net"
	"time"

	"github.com/AstromechZA/etcpwdparse"
	"github.com/creack/pty"

	"hop.computer/hop/authgrants"
	"hop.computer/hop/certs"
	"hop.computer/hop/common"
	"hop.computer/hop/config"
	"hop.computer/hop/keys"
	"hop.computer/hop/pkg/thunks"
	"hop.computer/hop/transport"
	"hop.computer/hop/tubes"
)

// C07 — a delegate session can do only what its grants allow, once, in time.

var c07Now time.Time

func c07TimeNow() time.Time { return c07Now }

func c07Cmd(tag string) string {
	// command texts over a 2-letter alphabet of length 0..2: enough for
	// equal / prefix / different
	n := verifPick(tag+"-len", 0, 1, 2)
	return verifString(tag, n)
}

// checkCmd from an arbitrary grant list and clock: an action starts only under
// a grant of the matching type that is effective, unexpired, unused and - for
// command grants - carries identical text; the grant is consumed.
//
//verif:prop C07
//verif:bounds 0..3 stored grants with symbolic type (all 256 values), start/expiry seconds (32 bit), command text of 0..2 symbolic bytes, principal id; request: shell or command with 0..2 symbolic bytes; clock symbolic
//verif:cover started-command;started-shell;refused
//verif:timeout 3000
//verif:tier thorough
func VH_C07_checkcmd_needs_matching_live_unused_grant_3grants() { c07CheckCmd(3) }

//verif:prop C07
//verif:bounds as the 3-grant variant with 0..2 stored grants
//verif:cover started-command;started-shell;refused
//verif:timeout 600
//verif:tier quick
func VH_C07_checkcmd_needs_matching_live_unused_grant() { c07CheckCmd(2) }

func c07CheckCmd(maxGrants int) {
	now := int64(verifU32("now"))
	c07Now = time.Unix(now, 0)
	thunks.TimeNow = c07TimeNow
	sess := &hopSession{}
	n := verifPick("grants", 0, 1, 2, 3)
	verifAssume(n <= maxGrants)
	type g struct {
		typ        authgrants.GrantType
		start, exp int64
		cmd        string
		pid        authgrants.PrincipalID
	}
	var gs [3]g
	for i := 0; i < n; i++ {
		gs[i] = g{typ: authgrants.GrantType(verifU8("type")), start: int64(verifU32("start")), exp: int64(verifU32("exp")), cmd: c07Cmd("grant-cmd"), pid: authgrants.PrincipalID(verifU32("principal"))}
		ag := authgrants.Authgrant{GrantType: gs[i].typ, StartTime: time.Unix(gs[i].start, 0), ExpTime: time.Unix(gs[i].exp, 0), PrincipalID: gs[i].pid}
		ag.AssociatedData.CommandGrantData.Cmd = gs[i].cmd
		sess.authorizedActions = append(sess.authorizedActions, ag)
	}
	shell := verifBool("shell")
	cmd := c07Cmd("request-cmd")

	pid, err := sess.checkCmd(cmd, shell)

	// which grant (the first in order) authorizes the request, per the property
	first := -1
	for i := n - 1; i >= 0; i-- {
		live := verifAnd(gs[i].start <= now, now < gs[i].exp)
		var m bool
		if shell {
			m = verifAnd(live, gs[i].typ == authgrants.Shell)
		} else {
			m = verifAnd(live, verifAnd(gs[i].typ == authgrants.Command, verifStrEq(gs[i].cmd, cmd)))
		}
		first = verifIteInt(m, i, first)
	}
	verifAssert((err == nil) == (first >= 0), "C07: an action starts iff a grant of the matching type is effective, unexpired, unused and (for commands) has identical text")
	if err != nil {
		verifAssert(len(sess.authorizedActions) == n, "C07: a refused request consumes nothing")
		verifCover("refused")
		return
	}
	if shell {
		verifCover("started-shell")
	} else {
		verifCover("started-command")
	}
	verifAssert(len(sess.authorizedActions) == n-1, "C07: each grant authorizes a single action (it is consumed)")
	if first >= 0 {
		verifAssert(uint32(pid) == uint32(gs[first].pid), "C07: the action runs under the principal of the consumed grant")
		// the remaining list is the old one minus exactly that grant
		k := 0
		for i := 0; i < n; i++ {
			if i == first {
				continue
			}
			if k < len(sess.authorizedActions) {
				verifAssert(sess.authorizedActions[k].PrincipalID == gs[i].pid, "C07: the other grants are kept, in order")
			}
			k++
		}
	}
}

// ---- tube dispatch and the exec decision for grant sessions ----

var c07d struct {
	accepts  int
	tubeType byte
	failures int
	lookups  int
	cmd      string
	shell    bool
	closed   int
}

// Sessions are ADMITTED by the real checkAuthorization (stubs decide what the
// authorized_keys file and the grant map answer), so that the harnesses do not
// depend on how the session remembers that it came in through grants.
var c07a struct {
	on        bool // the next Accept is the user-authentication tube
	viaGrants bool
	grants    []authgrants.Authgrant
	first     *tubes.Reliable
}

func c07GetInitMsg(r *tubes.Reliable) string                { return "alice" }
func c07FetchLeaf(h *transport.Handle) *certs.Certificate   { return &certs.Certificate{} }
func c07TubeWrite(r *tubes.Reliable, b []byte) (int, error) { return len(b), nil }
func c07AuthorizeKey(s *HopServer, u string, k keys.DHPublicKey) error {
	if c07a.viaGrants {
		return errors.New("key not listed")
	}
	return nil
}
func c07AuthorizeKeyAuthGrant(s *HopServer, u string, k keys.DHPublicKey) ([]authgrants.Authgrant, error) {
	return c07a.grants, nil
}

func c07NewSession(viaGrants bool, grants []authgrants.Authgrant) *hopSession {
	c07a.on, c07a.viaGrants, c07a.grants, c07a.first = true, viaGrants, grants, nil
	return &hopSession{server: &HopServer{config: &config.ServerConfig{EnableAuthgrants: true}}, transportConn: &transport.Handle{}, tubeMuxer: &tubes.Muxer{}}
}

func c07Admit(viaGrants bool, grants []authgrants.Authgrant) *hopSession {
	sess := c07NewSession(viaGrants, grants)
	verifAssume(sess.checkAuthorization())
	return sess
}

func c07Accept(m *tubes.Muxer) (tubes.Tube, error) {
	if c07a.on {
		c07a.on = false
		c07a.first = &tubes.Reliable{}
		return c07a.first, nil
	}
	c07d.accepts++
	if c07d.accepts > 2 {
		return nil, errors.New("muxer stopped")
	}
	return &tubes.Reliable{}, nil
}
func c07TubeType(r *tubes.Reliable) tubes.TubeType {
	if c07a.first != nil && r == c07a.first {
		return common.UserAuthTube
	}
	return tubes.TubeType(c07d.tubeType)
}
func c07TubeID(r *tubes.Reliable) byte            { return 0 }
func c07TubeReliable(r *tubes.Reliable) bool      { return true }
func c07TubeClose(r *tubes.Reliable) error        { return nil }
func c07CheckAuthorization(sess *hopSession) bool { return true }
func c07SessClose(sess *hopSession) error         { c07d.closed++; return nil }
func c07GetCmd(c net.Conn) (string, string, bool, *pty.Winsize, error) {
	return c07d.cmd, "xterm", c07d.shell, nil, nil
}
func c07SendFailure(t *tubes.Reliable, err error) { c07d.failures++ }
func c07LookupUser(username string) (*etcpwdparse.EtcPasswdEntry, error) {
	c07d.lookups++ // reaching the user lookup = the authorization decision was "go ahead"
	return nil, errors.New("stop here")
}

// One pass of the session's tube loop for a session admitted through grants:
// only execution (and the window-size helper) may be dispatched; port
// forwarding and further grant issuing need a grant of their own.
//
//verif:prop C07
//verif:replay none
//verif:stub (*hop.computer/hop/tubes.Muxer).Accept = c07Accept
//verif:stub (*hop.computer/hop/tubes.Reliable).Type = c07TubeType
//verif:stub (*hop.computer/hop/tubes.Reliable).GetID = c07TubeID
//verif:stub (*hop.computer/hop/tubes.Reliable).IsReliable = c07TubeReliable
//verif:stub (*hop.computer/hop/tubes.Reliable).Close = c07TubeClose
//verif:stub (*hop.computer/hop/tubes.Reliable).Write = c07TubeWrite
//verif:stub hop.computer/hop/userauth.GetInitMsg = c07GetInitMsg
//verif:stub (*hop.computer/hop/transport.Handle).FetchClientLeaf = c07FetchLeaf
//verif:stub (*hop.computer/hop/hopserver.HopServer).AuthorizeKey = c07AuthorizeKey
//verif:stub (*hop.computer/hop/hopserver.HopServer).AuthorizeKeyAuthGrant = c07AuthorizeKeyAuthGrant
//verif:stub (*hop.computer/hop/hopserver.hopSession).close = c07SessClose
//verif:bounds one accepted reliable tube of symbolic type (all 256 values) on a session admitted through grants that holds 0..1 command/shell grants; go statements are recorded, not run
//verif:cover exec;pf;agc;other
func VH_C07_grant_session_dispatches_only_granted_actions() {
	var grants []authgrants.Authgrant
	if verifBool("has-command-grant") {
		ag := authgrants.Authgrant{GrantType: authgrants.Command, ExpTime: time.Unix(2000000000, 0)}
		ag.AssociatedData.CommandGrantData.Cmd = "ls"
		grants = append(grants, ag)
	}
	sess := c07NewSession(true, grants) // start() runs the real checkAuthorization first
	c07d.accepts = 0
	c07d.tubeType = verifU8("tube-type")
	sess.start()
	pf := verifGoCount("startPF") + verifGoCount("handlePF")
	agc := verifGoCount("handleAgc")
	switch {
	case verifGoCount("startCodex") > 0:
		verifCover("exec")
	case pf > 0:
		verifCover("pf")
	case agc > 0:
		verifCover("agc")
	default:
		verifCover("other")
	}
	verifAssert(pf == 0, "C07: a session admitted through grants cannot start port forwarding without a port-forwarding grant")
	verifAssert(agc == 0, "C07: a session admitted through grants cannot issue further grants without a grant for it")
}

// startCodex: for a grant session the command runs only if checkCmd accepted it.
//
//verif:prop C07
//verif:replay none
//verif:stub (*hop.computer/hop/tubes.Muxer).Accept = c07Accept
//verif:stub (*hop.computer/hop/tubes.Reliable).Type = c07TubeType
//verif:stub (*hop.computer/hop/tubes.Reliable).Close = c07TubeClose
//verif:stub (*hop.computer/hop/tubes.Reliable).Write = c07TubeWrite
//verif:stub hop.computer/hop/userauth.GetInitMsg = c07GetInitMsg
//verif:stub (*hop.computer/hop/transport.Handle).FetchClientLeaf = c07FetchLeaf
//verif:stub (*hop.computer/hop/hopserver.HopServer).AuthorizeKey = c07AuthorizeKey
//verif:stub (*hop.computer/hop/hopserver.HopServer).AuthorizeKeyAuthGrant = c07AuthorizeKeyAuthGrant
//verif:stub hop.computer/hop/codex.GetCmd = c07GetCmd
//verif:stub hop.computer/hop/codex.SendFailure = c07SendFailure
//verif:bounds grant session (admitted by the real checkAuthorization) with 0..1 command grants (text of 0..2 symbolic bytes, live or expired), request: shell or command of 0..2 symbolic bytes; everything after the authorization decision (user lookup, exec) is cut at the user lookup
//verif:cover went-ahead;refused
func VH_C07_exec_for_grant_session_is_gated_by_checkcmd() {
	now := int64(verifU32("now"))
	c07Now = time.Unix(now, 0)
	thunks.TimeNow = c07TimeNow
	thunks.LookupUser = c07LookupUser
	has := verifBool("has-grant")
	gcmd := c07Cmd("grant-cmd")
	start, exp := int64(verifU32("start")), int64(verifU32("exp"))
	var grants []authgrants.Authgrant
	if has {
		ag := authgrants.Authgrant{GrantType: authgrants.Command, StartTime: time.Unix(start, 0), ExpTime: time.Unix(exp, 0)}
		ag.AssociatedData.CommandGrantData.Cmd = gcmd
		grants = append(grants, ag)
	}
	// admitted through grants by the real login code - with one grant, or with
	// none left (all consumed)
	sess := c07Admit(true, grants)
	c07d.cmd, c07d.shell = c07Cmd("request-cmd"), verifBool("shell")
	sess.startCodex(&tubes.Reliable{}, &tubes.Reliable{})
	allowed := verifAnd(verifAnd(has, !c07d.shell), verifAnd(verifAnd(start <= now, now < exp), verifStrEq(gcmd, c07d.cmd)))
	verifAssert((c07d.lookups > 0) == allowed, "C07: on a grant session a command goes ahead iff a matching live grant exists")
	if c07d.lookups > 0 {
		verifCover("went-ahead")
		verifAssert(len(sess.authorizedActions) == 0, "C07: the grant is consumed by the action")
	} else {
		verifCover("refused")
		verifAssert(c07d.failures == 1, "C07: a refused request is answered with exactly one failure")
	}
}

// Grants the server issues itself carry the principal id NoSession. No user
// session may ever be numbered NoSession, or a process started under a
// one-command grant could ask for further grants through someone else's
// session.

func c07TubesServer(c transport.MsgConn, cfg *tubes.Config) *tubes.Muxer { return &tubes.Muxer{} }
func c07SessStart(sess *hopSession)                                      {}

//verif:prop C07
//verif:replay none
//verif:stub hop.computer/hop/tubes.Server = c07TubesServer
//verif:stub (*hop.computer/hop/hopserver.hopSession).start = c07SessStart
//verif:bounds two consecutive sessions accepted by a server whose session counter holds any value below 2^32-2 (in particular 0: the first session after start)
//verif:cover numbered
func VH_C07_no_user_session_is_numbered_like_the_servers_own_grants() {
	s := &HopServer{sessions: map[sessID]*hopSession{}, config: &config.ServerConfig{}}
	start := verifU32("sessions-accepted-so-far")
	verifAssume(start < 1<<32-2)
	s.nextSessionID.Store(start)
	for i := 0; i < 2; i++ {
		s.newSession(nil)
	}
	verifAssert(len(s.sessions) == 2, "C07: every accepted session is registered under its own number")
	_, clash := s.sessions[NoSession]
	verifAssert(!clash, "C07: no user session is ever registered under NoSession, the principal id of grants issued by the server itself")
	verifCover("numbered")
}

// C11: the server's session tube loop survives every tube type in every
// session state (admitted by key or through grants, grants left or all
// consumed).
//
//verif:prop C11
//verif:replay none
//verif:stub (*hop.computer/hop/tubes.Muxer).Accept = c07Accept
//verif:stub (*hop.computer/hop/tubes.Reliable).Type = c07TubeType
//verif:stub (*hop.computer/hop/tubes.Reliable).GetID = c07TubeID
//verif:stub (*hop.computer/hop/tubes.Reliable).IsReliable = c07TubeReliable
//verif:stub (*hop.computer/hop/tubes.Reliable).Close = c07TubeClose
//verif:stub (*hop.computer/hop/tubes.Reliable).Write = c07TubeWrite
//verif:stub hop.computer/hop/userauth.GetInitMsg = c07GetInitMsg
//verif:stub (*hop.computer/hop/transport.Handle).FetchClientLeaf = c07FetchLeaf
//verif:stub (*hop.computer/hop/hopserver.HopServer).AuthorizeKey = c07AuthorizeKey
//verif:stub (*hop.computer/hop/hopserver.HopServer).AuthorizeKeyAuthGrant = c07AuthorizeKeyAuthGrant
//verif:stub (*hop.computer/hop/hopserver.hopSession).close = c07SessClose
//verif:bounds one accepted reliable tube of symbolic type (all 256 values) on a session admitted by key or through grants, holding 0..1 grants (none left = all consumed); go statements are recorded, not run
//verif:cover dispatched
func VH_C11_session_tube_loop_survives_any_tube_in_any_session_state() {
	var grants []authgrants.Authgrant
	via := verifBool("admitted-through-grants")
	if via && verifBool("has-a-grant-left") {
		grants = append(grants, authgrants.Authgrant{GrantType: authgrants.GrantType(verifU8("grant-type")), ExpTime: time.Unix(2000000000, 0)})
	}
	sess := c07NewSession(via, grants)
	c07d.accepts = 0
	c07d.tubeType = verifU8("tube-type")
	sess.start()
	verifCover("dispatched")
}
