package hopserver

import (
	"errors"
	"net"
	"time"

	"github.com/AstromechZA/etcpwdparse"
	"github.com/creack/pty"

	"hop.computer/hop/authgrants"
	"hop.computer/hop/pkg/thunks"
	"hop.computer/hop/config"
	"hop.computer/hop/transport"
	"hop.computer/hop/tubes"
)

// C07 — a delegate session can do only what its grants allow, once, in time.

var c07Now time.Time

func c07TimeNow() time.Time { return c07Now }

func c07Cmd(tag string) string {
	// command texts over a 2-letter alphabet of length 0..2: enough for
	// equal / prefix / different
	n := verifPick(tag+"-len", 0, 1, 2)
	return verifString(tag, n)
}

// checkCmd from an arbitrary grant list and clock: an action starts only under
// a grant of the matching type that is effective, unexpired, unused and - for
// command grants - carries identical text; the grant is consumed.
//
//verif:prop C07
//verif:bounds 0..3 stored grants with symbolic type (all 256 values), start/expiry seconds (32 bit), command text of 0..2 symbolic bytes, principal id; request: shell or command with 0..2 symbolic bytes; clock symbolic
//verif:cover started-command;started-shell;refused
//verif:timeout 3000
//verif:tier thorough
func VH_C07_checkcmd_needs_matching_live_unused_grant_3grants() { c07CheckCmd(3) }

//verif:prop C07
//verif:bounds as the 3-grant variant with 0..2 stored grants
//verif:cover started-command;started-shell;refused
//verif:timeout 600
//verif:tier quick
func VH_C07_checkcmd_needs_matching_live_unused_grant() { c07CheckCmd(2) }

func c07CheckCmd(maxGrants int) {
	now := int64(verifU32("now"))
	c07Now = time.Unix(now, 0)
	thunks.TimeNow = c07TimeNow
	sess := &hopSession{usingAuthGrant: true}
	n := verifPick("grants", 0, 1, 2, 3)
	verifAssume(n <= maxGrants)
	type g struct {
		typ        authgrants.GrantType
		start, exp int64
		cmd        string
		pid        authgrants.PrincipalID
	}
	var gs [3]g
	for i := 0; i < n; i++ {
		gs[i] = g{typ: authgrants.GrantType(verifU8("type")), start: int64(verifU32("start")), exp: int64(verifU32("exp")), cmd: c07Cmd("grant-cmd"), pid: authgrants.PrincipalID(verifU32("principal"))}
		ag := authgrants.Authgrant{GrantType: gs[i].typ, StartTime: time.Unix(gs[i].start, 0), ExpTime: time.Unix(gs[i].exp, 0), PrincipalID: gs[i].pid}
		ag.AssociatedData.CommandGrantData.Cmd = gs[i].cmd
		sess.authorizedActions = append(sess.authorizedActions, ag)
	}
	shell := verifBool("shell")
	cmd := c07Cmd("request-cmd")

	pid, err := sess.checkCmd(cmd, shell)

	// which grant (the first in order) authorizes the request, per the property
	first := -1
	for i := n - 1; i >= 0; i-- {
		live := verifAnd(gs[i].start <= now, now < gs[i].exp)
		var m bool
		if shell {
			m = verifAnd(live, gs[i].typ == authgrants.Shell)
		} else {
			m = verifAnd(live, verifAnd(gs[i].typ == authgrants.Command, verifStrEq(gs[i].cmd, cmd)))
		}
		first = verifIteInt(m, i, first)
	}
	verifAssert((err == nil) == (first >= 0), "C07: an action starts iff a grant of the matching type is effective, unexpired, unused and (for commands) has identical text")
	if err != nil {
		verifAssert(len(sess.authorizedActions) == n, "C07: a refused request consumes nothing")
		verifCover("refused")
		return
	}
	if shell {
		verifCover("started-shell")
	} else {
		verifCover("started-command")
	}
	verifAssert(len(sess.authorizedActions) == n-1, "C07: each grant authorizes a single action (it is consumed)")
	if first >= 0 {
		verifAssert(uint32(pid) == uint32(gs[first].pid), "C07: the action runs under the principal of the consumed grant")
		// the remaining list is the old one minus exactly that grant
		k := 0
		for i := 0; i < n; i++ {
			if i == first {
				continue
			}
			if k < len(sess.authorizedActions) {
				verifAssert(sess.authorizedActions[k].PrincipalID == gs[i].pid, "C07: the other grants are kept, in order")
			}
			k++
		}
	}
}

// ---- tube dispatch and the exec decision for grant sessions ----

var c07d struct {
	accepts   int
	tubeType  byte
	failures  int
	lookups   int
	cmd       string
	shell     bool
	closed    int
}

func c07Accept(m *tubes.Muxer) (tubes.Tube, error) {
	c07d.accepts++
	if c07d.accepts > 2 {
		return nil, errors.New("muxer stopped")
	}
	return &tubes.Reliable{}, nil
}
func c07TubeType(r *tubes.Reliable) tubes.TubeType { return tubes.TubeType(c07d.tubeType) }
func c07TubeID(r *tubes.Reliable) byte              { return 0 }
func c07TubeReliable(r *tubes.Reliable) bool        { return true }
func c07TubeClose(r *tubes.Reliable) error          { return nil }
func c07CheckAuthorization(sess *hopSession) bool   { return true }
func c07SessClose(sess *hopSession) error           { c07d.closed++; return nil }
func c07GetCmd(c net.Conn) (string, string, bool, *pty.Winsize, error) {
	return c07d.cmd, "xterm", c07d.shell, nil, nil
}
func c07SendFailure(t *tubes.Reliable, err error) { c07d.failures++ }
func c07LookupUser(username string) (*etcpwdparse.EtcPasswdEntry, error) {
	c07d.lookups++ // reaching the user lookup = the authorization decision was "go ahead"
	return nil, errors.New("stop here")
}

// One pass of the session's tube loop for a session admitted through grants:
// only execution (and the window-size helper) may be dispatched; port
// forwarding and further grant issuing need a grant of their own.
//
//verif:prop C07
//verif:replay none
//verif:stub (*hop.computer/hop/tubes.Muxer).Accept = c07Accept
//verif:stub (*hop.computer/hop/tubes.Reliable).Type = c07TubeType
//verif:stub (*hop.computer/hop/tubes.Reliable).GetID = c07TubeID
//verif:stub (*hop.computer/hop/tubes.Reliable).IsReliable = c07TubeReliable
//verif:stub (*hop.computer/hop/tubes.Reliable).Close = c07TubeClose
//verif:stub (*hop.computer/hop/hopserver.hopSession).checkAuthorization = c07CheckAuthorization
//verif:stub (*hop.computer/hop/hopserver.hopSession).close = c07SessClose
//verif:bounds one accepted reliable tube of symbolic type (all 256 values) on a session admitted through grants that holds 0..1 command/shell grants; go statements are recorded, not run
//verif:cover exec;pf;agc;other
func VH_C07_grant_session_dispatches_only_granted_actions() {
	sess := &hopSession{usingAuthGrant: true, server: &HopServer{}}
	if verifBool("has-command-grant") {
		ag := authgrants.Authgrant{GrantType: authgrants.Command, ExpTime: time.Unix(2000000000, 0)}
		ag.AssociatedData.CommandGrantData.Cmd = "ls"
		sess.authorizedActions = append(sess.authorizedActions, ag)
	}
	c07d.tubeType = verifU8("tube-type")
	sess.start()
	pf := verifGoCount("startPF") + verifGoCount("handlePF")
	agc := verifGoCount("handleAgc")
	switch {
	case verifGoCount("startCodex") > 0:
		verifCover("exec")
	case pf > 0:
		verifCover("pf")
	case agc > 0:
		verifCover("agc")
	default:
		verifCover("other")
	}
	verifAssert(pf == 0, "C07: a session admitted through grants cannot start port forwarding without a port-forwarding grant")
	verifAssert(agc == 0, "C07: a session admitted through grants cannot issue further grants without a grant for it")
}

// startCodex: for a grant session the command runs only if checkCmd accepted it.
//
//verif:prop C07
//verif:replay none
//verif:stub hop.computer/hop/codex.GetCmd = c07GetCmd
//verif:stub hop.computer/hop/codex.SendFailure = c07SendFailure
//verif:bounds grant session with 0..1 command grants (text of 0..2 symbolic bytes, live or expired), request: shell or command of 0..2 symbolic bytes; everything after the authorization decision (user lookup, exec) is cut at the user lookup
//verif:cover went-ahead;refused
func VH_C07_exec_for_grant_session_is_gated_by_checkcmd() {
	now := int64(verifU32("now"))
	c07Now = time.Unix(now, 0)
	thunks.TimeNow = c07TimeNow
	thunks.LookupUser = c07LookupUser
	sess := &hopSession{usingAuthGrant: true, server: &HopServer{}}
	has := verifBool("has-grant")
	gcmd := c07Cmd("grant-cmd")
	start, exp := int64(verifU32("start")), int64(verifU32("exp"))
	if has {
		ag := authgrants.Authgrant{GrantType: authgrants.Command, StartTime: time.Unix(start, 0), ExpTime: time.Unix(exp, 0)}
		ag.AssociatedData.CommandGrantData.Cmd = gcmd
		sess.authorizedActions = append(sess.authorizedActions, ag)
	}
	c07d.cmd, c07d.shell = c07Cmd("request-cmd"), verifBool("shell")
	sess.startCodex(&tubes.Reliable{}, &tubes.Reliable{})
	allowed := verifAnd(verifAnd(has, !c07d.shell), verifAnd(verifAnd(start <= now, now < exp), verifStrEq(gcmd, c07d.cmd)))
	verifAssert((c07d.lookups > 0) == allowed, "C07: on a grant session a command goes ahead iff a matching live grant exists")
	if c07d.lookups > 0 {
		verifCover("went-ahead")
		verifAssert(len(sess.authorizedActions) == 0, "C07: the grant is consumed by the action")
	} else {
		verifCover("refused")
		verifAssert(c07d.failures == 1, "C07: a refused request is answered with exactly one failure")
	}
}

// Grants the server issues itself carry the principal id NoSession. No user
// session may ever be numbered NoSession, or a process started under a
// one-command grant could ask for further grants through someone else's
// session.

func c07TubesServer(c transport.MsgConn, cfg *tubes.Config) *tubes.Muxer { return &tubes.Muxer{} }
func c07SessStart(sess *hopSession)                                    {}

//verif:prop C07
//verif:replay none
//verif:stub hop.computer/hop/tubes.Server = c07TubesServer
//verif:stub (*hop.computer/hop/hopserver.hopSession).start = c07SessStart
//verif:bounds two consecutive sessions accepted by a server whose session counter holds any value below 2^32-2 (in particular 0: the first session after start)
//verif:cover numbered
func VH_C07_no_user_session_is_numbered_like_the_servers_own_grants() {
	s := &HopServer{sessions: map[sessID]*hopSession{}, config: &config.ServerConfig{}}
	start := verifU32("sessions-accepted-so-far")
	verifAssume(start < 1<<32-2)
	s.nextSessionID.Store(start)
	for i := 0; i < 2; i++ {
		s.newSession(nil)
	}
	verifAssert(len(s.sessions) == 2, "C07: every accepted session is registered under its own number")
	_, clash := s.sessions[NoSession]
	verifAssert(!clash, "C07: no user session is ever registered under NoSession, the principal id of grants issued by the server itself")
	verifCover("numbered")
}
