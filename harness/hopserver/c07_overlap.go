package hopserver

import (
	"time"

	"hop.computer/hop/authgrants"
	"hop.computer/hop/pkg/thunks"
)

// C07 — "each grant authorizes a single action" when two requests of one
// session overlap. The session's tube loop starts every execution request in a
// goroutine of its own (`go sess.startCodex`), so two requests can be inside
// checkCmd at once. The engine is sequential; the overlap is scripted: at the
// clock reading inside checkCmd's loop (the one call between reading the grant
// list and deleting from it) a second, complete checkCmd runs, or - the other
// schedule - the second request runs after the first. A switch point at which
// the second request has to wait for a lock is no schedule: that path ends as
// "blocked" and is not counted.

var c07o struct {
	sess     *hopSession
	cmd      string
	shell    bool
	overlap  bool
	ran      bool
	otherErr error
	now      time.Time
}

func c07OverlapTimeNow() time.Time {
	if c07o.overlap && !c07o.ran {
		c07o.ran = true
		verifCover("second-request-scheduled-inside-the-first")
		_, c07o.otherErr = c07o.sess.checkCmd(c07o.cmd, c07o.shell)
	}
	return c07o.now
}

//verif:prop C07
//verif:bounds one grant session holding ONE live grant (command "x" or shell); two identical requests matching it, the second one either after the first or scripted into the first one's clock reading inside checkCmd (one context switch, not all interleavings; parallel execution on two cores is outside)
//verif:cover sequential;second-request-scheduled-inside-the-first
func VH_C07_two_overlapping_requests_cannot_both_use_one_grant() {
	c07o.now = time.Unix(1000, 0)
	thunks.TimeNow = c07OverlapTimeNow
	shell := verifBool("shell")
	ag := authgrants.Authgrant{GrantType: authgrants.Command, StartTime: time.Unix(0, 0), ExpTime: time.Unix(2000, 0)}
	ag.AssociatedData.CommandGrantData.Cmd = "x"
	if shell {
		ag.GrantType = authgrants.Shell
	}
	sess := &hopSession{authorizedActions: []authgrants.Authgrant{ag}}
	c07o.sess, c07o.cmd, c07o.shell = sess, "x", shell
	c07o.overlap = verifBool("second-request-overlaps-the-first")
	verifPanicsAreViolations(true)
	_, err := sess.checkCmd("x", shell)
	if !c07o.ran {
		verifCover("sequential")
		_, c07o.otherErr = sess.checkCmd("x", shell)
	}
	verifAssert((err == nil) != (c07o.otherErr == nil), "C07: of two requests matching one grant exactly one is started - each grant authorizes a single action")
	verifAssert(len(sess.authorizedActions) == 0, "C07: the grant is gone")
}
