package codex

import (
	"errors"
	"io"
	"net"
	"os"
	"time"

	"github.com/creack/pty"

	"hop.computer/hop/tubes"
)

// C11 / C18 — execution-request and window-size codecs.

// c11Conn is a net.Conn whose Read side is a finite stream of symbolic bytes
// (EOF afterwards) and whose Write side records what was written.
type c11Conn struct {
	b   []byte
	off int
	w   []byte
}

func (c *c11Conn) Read(p []byte) (int, error) {
	if c.off >= len(c.b) {
		return 0, io.EOF
	}
	n := copy(p, c.b[c.off:])
	c.off += n
	return n, nil
}
func (c *c11Conn) Write(p []byte) (int, error)        { c.w = append(c.w, p...); return len(p), nil }
func (c *c11Conn) Close() error                       { return nil }
func (c *c11Conn) LocalAddr() net.Addr                { return nil }
func (c *c11Conn) RemoteAddr() net.Addr               { return nil }
func (c *c11Conn) SetDeadline(t time.Time) error      { return nil }
func (c *c11Conn) SetReadDeadline(t time.Time) error  { return nil }
func (c *c11Conn) SetWriteDeadline(t time.Time) error { return nil }

// GetCmd on an arbitrary byte stream: returns without panicking and never
// allocates out of proportion to the bytes received.
//
//verif:prop C11
//verif:bounds stream of n symbolic bytes, n picked from {0,1,3,5,9,13,17,24} (EOF after n), both 32-bit length fields fully symbolic; allocation limit 64 KiB + 128 KiB per field
//verif:cover returned
func VH_C11_GetCmd_total_and_bounded_alloc() {
	n := verifPick("streamlen", 0, 1, 3, 5, 9, 13, 17, 24)
	c := &c11Conn{b: verifBytes("stream", n)}
	verifAllocLimit(65536 + 131072)
	cmd, term, _, _, err := GetCmd(c)
	verifCover("returned")
	if err == nil {
		verifAssert(len(cmd)+len(term) <= 2*(65536+131072), "C11: GetCmd result is bounded")
	}
}

// readSize on an arbitrary stream.
//
//verif:prop C11
//verif:bounds stream of 0..12 symbolic bytes
//verif:cover size;error
func VH_C11_readSize_total() {
	n := verifPick("streamlen", 0, 1, 7, 8, 12)
	c := &c11Conn{b: verifBytes("stream", n)}
	sz, err := readSize(c)
	if err != nil {
		verifCover("error")
		verifAssert(n < 8, "C11: readSize fails only on a short stream")
		return
	}
	verifCover("size")
	verifAssert(sz != nil, "C11: readSize returns a size or an error")
}

// C18: decode(encode(m)) == m for execution requests.
//
//verif:prop C18
//verif:bounds command length picked from {0,1,255,256,70000}, TERM length from {0,1,5,300}, bytes symbolic, pty flag and optional window size symbolic
//verif:cover roundtrip
func VH_C18_execInitMsg_roundtrip() {
	cl := verifPick("cmdlen", 0, 1, 255, 256, 70000)
	tl := verifPick("termlen", 0, 1, 5, 300)
	cmd := verifString("cmd", cl)
	term := verifString("term", tl)
	usePty := verifBool("pty")
	var size *pty.Winsize
	if verifBool("hassize") {
		size = &pty.Winsize{Rows: verifU16("rows"), Cols: verifU16("cols"), X: verifU16("x"), Y: verifU16("y")}
	}
	wire := newExecInitMsg(usePty, cmd, term, size).ToBytes()
	c := &c11Conn{b: wire}
	gc, gt, gp, gs, err := GetCmd(c)
	verifAssert(err == nil, "C18: exec request decodes")
	if err != nil {
		return
	}
	verifCover("roundtrip")
	verifAssertStrEq(gc, cmd, "C18: exec command round-trips")
	verifAssertStrEq(gt, term, "C18: exec TERM round-trips")
	verifAssert(gp == usePty, "C18: exec pty flag round-trips")
	verifAssert((gs == nil) == (size == nil), "C18: exec window size presence round-trips")
	if gs != nil && size != nil {
		verifAssert(*gs == *size, "C18: exec window size round-trips")
	}
	verifAssert(c.off == len(wire), "C18: GetCmd consumes exactly the encoding")
}

// C18: window-size messages round-trip.
//
//verif:prop C18
//verif:bounds all four 16-bit fields symbolic
func VH_C18_winsize_roundtrip() {
	size := &pty.Winsize{Rows: verifU16("rows"), Cols: verifU16("cols"), X: verifU16("x"), Y: verifU16("y")}
	b := make([]byte, 8)
	serializeSize(b, size)
	got, err := readSize(&c11Conn{b: b})
	verifAssert(err == nil, "C18: window size decodes")
	if err == nil {
		verifAssert(*got == *size, "C18: window size round-trips")
	}
}

// ---- exec status (SendSuccess / SendFailure -> getStatus) ----
//
// getStatus takes the concrete tube type; its Read / Write are replaced by a
// finite symbolic stream and a recorder.

var c11Tube struct {
	in  []byte
	off int
	out []byte
}

func c11RelRead(t *tubes.Reliable, p []byte) (int, error) {
	if c11Tube.off >= len(c11Tube.in) {
		return 0, io.EOF
	}
	n := copy(p, c11Tube.in[c11Tube.off:])
	c11Tube.off += n
	return n, nil
}

func c11RelWrite(t *tubes.Reliable, p []byte) (int, error) {
	c11Tube.out = append(c11Tube.out, p...)
	return len(p), nil
}

// The client's status reader on whatever the server's tube delivers: returns,
// and never allocates more than the 16-bit length field can announce.
//
//verif:prop C11
//verif:replay none
//verif:stub (*hop.computer/hop/tubes.Reliable).Read = c11RelRead
//verif:bounds stream of n symbolic bytes, n picked from {0,1,2,5,6,9} (EOF after n); allocation limit 64 KiB
//verif:cover returned
func VH_C11_getStatus_total_and_bounded_alloc() {
	n := verifPick("streamlen", 0, 1, 2, 5, 6, 9)
	c11Tube.in, c11Tube.off = verifBytes("stream", n), 0
	verifAllocLimit(65536)
	_ = getStatus(&tubes.Reliable{})
	verifCover("returned")
}

// What SendFailure / SendSuccess write is what getStatus reads back.
//
//verif:prop C18
//verif:replay none
//verif:stub (*hop.computer/hop/tubes.Reliable).Read = c11RelRead
//verif:stub (*hop.computer/hop/tubes.Reliable).Write = c11RelWrite
//verif:bounds success, or failure with an error text of length {0,1,255,256,300} and symbolic bytes
//verif:cover success;failure
func VH_C18_exec_status_roundtrip() {
	c11Tube.out = nil
	t := &tubes.Reliable{}
	if verifBool("success") {
		SendSuccess(t)
		c11Tube.in, c11Tube.off = c11Tube.out, 0
		verifAssert(getStatus(t) == nil, "C18: a success status decodes as success")
		verifCover("success")
		return
	}
	n := verifPick("textlen", 0, 1, 255, 256, 300)
	text := verifString("error-text", n)
	SendFailure(t, errors.New(text))
	c11Tube.in, c11Tube.off = c11Tube.out, 0
	err := getStatus(t)
	verifAssert(err != nil, "C18: a failure status decodes as a failure")
	if err != nil {
		verifAssertStrEq(err.Error(), text, "C18: the failure text round-trips")
	}
	verifAssert(c11Tube.off == len(c11Tube.in), "C18: getStatus consumes exactly what SendFailure wrote")
	verifCover("failure")
}

// The window-size tube of a session: the server starts HandleSize with the
// session's pty - which is nil for commands run WITHOUT a pty. Whatever the peer
// writes (any number of complete or partial size updates), and whether or not
// resizing fails, the reader returns without panicking.

func c11Setsize(f *os.File, ws *pty.Winsize) error {
	if f == nil || verifBool("resize-fails") {
		return errors.New("bad file descriptor")
	}
	return nil
}
func c11RelClose(t *tubes.Reliable) error { return nil }

//verif:prop C11
//verif:replay none
//verif:stub (*hop.computer/hop/tubes.Reliable).Read = c11RelRead
//verif:stub (*hop.computer/hop/tubes.Reliable).Close = c11RelClose
//verif:stub github.com/creack/pty.Setsize = c11Setsize
//verif:bounds stream of n symbolic bytes, n picked from {0,3,8,12,16} (0..2 size updates, possibly cut short), then end of stream; session with a pty or without one (nil file); resizing succeeds or fails
//verif:cover returned
func VH_C11_window_size_reader_survives_sessions_without_a_pty() {
	n := verifPick("streamlen", 0, 3, 8, 12, 16)
	c11Tube.in, c11Tube.off = verifBytes("stream", n), 0
	var f *os.File
	if verifBool("session-has-a-pty") {
		f = os.Stdout
	}
	HandleSize(&tubes.Reliable{}, f)
	verifCover("returned")
}
