package userauth

import (
	"io"

	"hop.computer/hop/tubes"
)

// C11 / C18 — user-authentication request. GetInitMsg reads from a concrete
// *tubes.Reliable, so the tube's Read/Write are replaced by a symbolic stream
// (stub by directive; not realisable natively, hence replay=none).

var c11Stream struct {
	b   []byte
	off int
	w   []byte
}

func c11TubeRead(r *tubes.Reliable, p []byte) (int, error) {
	if c11Stream.off >= len(c11Stream.b) {
		return 0, io.EOF
	}
	n := copy(p, c11Stream.b[c11Stream.off:])
	c11Stream.off += n
	return n, nil
}

func c11TubeWrite(r *tubes.Reliable, p []byte) (int, error) {
	c11Stream.w = append(c11Stream.w, p...)
	return len(p), nil
}

//verif:filestub (*hop.computer/hop/tubes.Reliable).Read = c11TubeRead
//verif:filestub (*hop.computer/hop/tubes.Reliable).Write = c11TubeWrite

// GetInitMsg on arbitrary bytes: returns, and allocates at most 64 KiB.
//
//verif:prop C11
//verif:replay none
//verif:bounds stream length in {0,1,2,3,4,6,40}, all bytes symbolic (so every value of the length field); tube Read replaced by a finite symbolic stream with EOF
//verif:cover returned
func VH_C11_GetInitMsg_total_and_bounded_alloc() {
	n := verifPick("streamlen", 0, 1, 2, 3, 4, 6, 40)
	c11Stream.b = verifBytes("stream", n)
	c11Stream.off = 0
	verifAllocLimit(65536 + 40)
	name := GetInitMsg(&tubes.Reliable{})
	verifCover("returned")
	verifAssert(len(name) <= 65535, "C11: user name read from the tube is bounded by its 16-bit length field")
}

// C18: a user name either round-trips or is refused; it is never truncated.
//
//verif:prop C18
//verif:replay none
//verif:bounds user-name length in {0,1,255,256,65535,65536,65537}, bytes symbolic
//verif:cover roundtrip
func VH_C18_userauth_roundtrip() {
	n := verifPick("namelen", 0, 1, 255, 256, 65535, 65536, 65537)
	name := verifString("name", n)
	c11Stream.w = make([]byte, 0, 1<<18)
	c11Stream.b = []byte{UserAuthDen}
	c11Stream.off = 0
	RequestAuthorization(&tubes.Reliable{}, name)
	sent := c11Stream.w
	if len(sent) == 0 {
		// refused by the encoder: nothing transmitted
		verifCover("refused")
		return
	}
	c11Stream.b = sent
	c11Stream.off = 0
	got := GetInitMsg(&tubes.Reliable{})
	verifCover("roundtrip")
	verifAssertStrEq(got, name, "C18: user name round-trips (over-long names must be refused, not truncated)")
}
