package certs

import (
	"encoding/pem"
	"hash"
	"io"
	"time"
)

// C18 — certificate, IDChunk and Name encodings round-trip.

type c18Buf struct {
	b   []byte
	off int
}

func (v *c18Buf) Write(p []byte) (int, error) {
	v.b = append(v.b, p...)
	return len(p), nil
}

func (v *c18Buf) Read(p []byte) (int, error) {
	if v.off >= len(v.b) {
		return 0, io.EOF
	}
	n := copy(p, v.b[v.off:])
	v.off += n
	return n, nil
}

// The fingerprint hash is not the subject of C18: an object whose Sum yields
// fresh bytes stands in for SHA3-256 (natively the real one runs).
type c18Hash struct{}

func (c18Hash) Write(p []byte) (int, error) { return len(p), nil }
func (c18Hash) Sum(b []byte) []byte          { return append(b, verifFreshBytes("sha3", 32)...) }
func (c18Hash) Reset()                       {}
func (c18Hash) Size() int                    { return 32 }
func (c18Hash) BlockSize() int               { return 136 }

func c18FakeSHA3() hash.Hash { return c18Hash{} }

//verif:filestub golang.org/x/crypto/sha3.New256 = c18FakeSHA3

// Name: encode either fails or decodes to the same label and type.
//
//verif:prop C18
//verif:bounds label length symbolic 0..300 (straddles 252/253/255/256), type over all 256 values, bytes symbolic
//verif:cover accepted;rejected
func VH_C18_name_roundtrip() {
	n := verifInt("len")
	verifAssume(n >= 0 && n <= 300)
	name := Name{Label: verifBytes("label", n), Type: IDType(verifU8("type"))}
	w := &c18Buf{b: make([]byte, 0, 1024)}
	_, err := name.WriteTo(w)
	if err != nil {
		verifCover("rejected")
		return
	}
	verifCover("accepted")
	var got Name
	_, err = got.ReadFrom(w)
	verifAssert(err == nil, "C18: Name.WriteTo output is readable by Name.ReadFrom (over-long labels must be rejected)")
	if err != nil {
		return
	}
	verifAssert(got.Type == name.Type, "C18: Name type round-trips")
	verifAssertBytesEq(got.Label, name.Label, "C18: Name label round-trips")
	verifAssert(w.off == len(w.b), "C18: Name.ReadFrom consumes exactly what WriteTo wrote")
}

func c18Cert(nblocks int, maxLabel int) *Certificate {
	c := &Certificate{
		Version:   verifU8("version"),
		Type:      CertificateType(verifU8("type")),
		IssuedAt:  time.Unix(int64(verifU64("issued")>>1), 0),
		ExpiresAt: time.Unix(int64(verifU64("expires")>>1), 0),
	}
	copy(c.PublicKey[:], verifBytes("pub", 32))
	copy(c.Parent[:], verifBytes("parent", 32))
	copy(c.Signature[:], verifBytes("sig", 64))
	for i := 0; i < nblocks; i++ {
		n := verifPick("labellen", 0, 1, 5, 252, 253)
		verifAssume(n <= maxLabel)
		c.IDChunk.Blocks = append(c.IDChunk.Blocks, Name{Label: verifBytes("label", n), Type: IDType(verifU8("idtype"))})
	}
	return c
}

func c18CertEq(a, b *Certificate, label string) {
	verifAssert(a.Version == b.Version, label+": version")
	verifAssert(a.Type == b.Type, label+": type")
	verifAssert(a.IssuedAt.Unix() == b.IssuedAt.Unix(), label+": issued-at")
	verifAssert(a.ExpiresAt.Unix() == b.ExpiresAt.Unix(), label+": expires-at")
	verifAssert(a.PublicKey == b.PublicKey, label+": public key")
	verifAssert(a.Parent == b.Parent, label+": parent fingerprint")
	verifAssert(a.Signature == b.Signature, label+": signature")
	verifAssert(len(a.IDChunk.Blocks) == len(b.IDChunk.Blocks), label+": number of names")
	if len(a.IDChunk.Blocks) == len(b.IDChunk.Blocks) {
		for i := range a.IDChunk.Blocks {
			verifAssert(a.IDChunk.Blocks[i].Type == b.IDChunk.Blocks[i].Type, label+": name type")
			verifAssertBytesEq(a.IDChunk.Blocks[i].Label, b.IDChunk.Blocks[i].Label, label+": name label")
		}
	}
}

// Certificate: decode(encode(c)) == c field by field, for 0..2 names.
//
//verif:prop C18
//verif:bounds every fixed field symbolic (type over all 256 values, times >= 0), 0..2 names with label length in {0,1,5,252,253} (symbolic lengths 0..300 are covered by VH_C18_name_roundtrip), bytes symbolic; SHA3 replaced by fresh bytes
//verif:cover accepted;rejected
func VH_C18_certificate_roundtrip() {
	nb := int(verifU8("nblocks") % 3)
	c := c18Cert(nb, 260)
	w := &c18Buf{b: make([]byte, 0, 4096)}
	_, err := c.WriteTo(w)
	if err != nil {
		verifCover("rejected")
		return
	}
	verifCover("accepted")
	var got Certificate
	_, err = got.ReadFrom(w)
	verifAssert(err == nil, "C18: Certificate.WriteTo output is readable by ReadFrom")
	if err != nil {
		return
	}
	c18CertEq(&got, c, "C18: certificate round-trip")
	verifAssert(w.off == len(w.b), "C18: Certificate.ReadFrom consumes exactly what WriteTo wrote")
}

// Decode-encode-decode: every accepted byte string re-encodes to something
// that decodes to the same certificate. Length fields are picked from a grid
// (so that offsets are concrete on each path), everything else is symbolic.
//
//verif:prop C18
//verif:bounds 84 fixed bytes + signature fully symbolic; <= 3 blocks; per block: declared size in {exact, exact+2, 2} (2-block variant also 255), label length in {0,4} (2-block variant also 1); declared chunk length = exact or exact-1 or exact+1; stream padded with 70 arbitrary bytes
//verif:cover decoded;reencoded;rejected
//verif:tier thorough
//verif:timeout 1500
//verif:maxpaths 400000
func VH_C18_certificate_decode_encode_decode_3blocks() { c18DED(3) }

//verif:prop C18
//verif:bounds as the 3-block variant with <= 2 blocks
//verif:cover decoded;reencoded;rejected
//verif:tier quick
func VH_C18_certificate_decode_encode_decode() { c18DED(2) }

func c18DED(maxBlocks int) {
	raw := verifBytes("wire", 86+3*7+64+70)
	pos := 86
	nb := verifPick("nblocks", 0, 1, 2, 3)
	verifAssume(nb <= maxBlocks)
	for i := 0; i < nb; i++ {
		idLen := verifPick("idlen", 0, 1, 4)
		size := idLen + 3
		decl := verifPick("declared", 0, 1, 2, 3)
		if maxBlocks > 2 {
			// keep the 3-block variant inside the path budget
			verifAssume(idLen != 1 && decl != 2)
		}
		switch decl {
		case 1:
			size += 2
		case 2:
			size = 255
		case 3:
			size = 2
		}
		raw[pos] = byte(size)
		raw[pos+2] = byte(idLen)
		pos += 3 + idLen
	}
	delta := verifPick("chunk-delta", 0, -1, 1)
	if delta == 1 {
		// the parser will read one more block header out of what follows
		// (signature bytes): keep its length fields on the grid as well
		raw[pos] = byte(verifPick("phantom-size", 3, 5, 255))
		raw[pos+2] = byte(verifPick("phantom-idlen", 0, 2))
	}
	chunk := pos - 86 + 2 + delta
	verifAssume(chunk >= 0)
	raw[84] = byte(chunk >> 8)
	raw[85] = byte(chunk)
	var c Certificate
	_, err := c.ReadFrom(&c18Buf{b: raw})
	if err != nil {
		verifCover("rejected")
		return
	}
	verifCover("decoded")
	w := &c18Buf{b: make([]byte, 0, 4096)}
	_, err = c.WriteTo(w)
	if err != nil {
		// a decodable value that re-encoding rejects transmits nothing: note, not a violation
		verifNote("re-encoding rejected a decodable certificate")
		return
	}
	verifCover("reencoded")
	var d Certificate
	_, err = d.ReadFrom(w)
	verifAssert(err == nil, "C18: re-encoded certificate decodes")
	if err != nil {
		return
	}
	c18CertEq(&d, &c, "C18: certificate decode-encode-decode")
}

// C11: a certificate stream cut at ANY position (it arrives inside intent
// messages on an authorization-grant tube) yields an error, never a panic.
//
//verif:prop C11
//verif:bounds stream cut at 28 positions covering the inside and both edges of every field of a certificate with up to two short names, all bytes symbolic, chunk length field from {2,6,10}
//verif:cover error;parsed
//verif:timeout 600
func VH_C11_certificate_readfrom_truncated_anywhere() {
	n := verifPick("streamlen", 0, 1, 3, 4, 11, 12, 19, 20, 21, 30, 51, 52, 60, 83, 84, 85, 86, 87, 89, 90, 93, 94, 95, 96, 120, 157, 158, 160)
	raw := verifBytes("stream", 160)
	raw[84], raw[85] = 0, byte(verifPick("chunklen", 2, 6, 10))
	raw[86], raw[88] = 4, 1
	raw[90], raw[92] = 4, 1
	verifAllocLimit(65536 + 160)
	var c Certificate
	_, err := c.ReadFrom(&c18Buf{b: raw[:n]})
	if err != nil {
		verifCover("error")
	} else {
		verifCover("parsed")
	}
}

// ---- PEM bundles: every certificate of a bundle is read independently ----
//
// encoding/pem is replaced by a fake that maps the k-th marker byte of the
// stream to the k-th prepared block (the armour itself is not hop code); the
// block contents are the real encodings of certificates with symbolic fields.

var c18Blocks [][]byte

func c18PemDecode(data []byte) (*pem.Block, []byte) {
	if len(data) == 0 {
		return nil, data
	}
	k := int(data[0] - 'A')
	if k < 0 || k >= len(c18Blocks) {
		return nil, data
	}
	typ := PEMTypeHopCertificate
	if c18Blocks[k] == nil {
		typ = "SOMETHING ELSE" // a foreign PEM block between certificates
	}
	return &pem.Block{Type: typ, Bytes: c18Blocks[k]}, data[1:]
}

func c18Bundle(prop string, n int) {
	c18Blocks = nil
	var want []*Certificate
	stream := []byte{}
	for i := 0; i < n; i++ {
		if i == 1 && verifBool("foreign-block-between") {
			stream = append(stream, byte('A'+len(c18Blocks)))
			c18Blocks = append(c18Blocks, nil)
		}
		c := c18Cert(verifPick("names", 0, 1, 2), 5)
		w := &c18Buf{b: make([]byte, 0, 512)}
		_, err := c.WriteTo(w)
		verifAssume(err == nil)
		stream = append(stream, byte('A'+len(c18Blocks)))
		c18Blocks = append(c18Blocks, w.b)
		want = append(want, c)
	}
	got, err := ReadManyCertificatesPEM(&c18Buf{b: stream})
	verifAssert(err == nil, prop+": a bundle of well-formed certificates is read")
	if err != nil {
		return
	}
	verifAssert(len(got) == n, prop+": one certificate per hop PEM block, foreign blocks ignored")
	if len(got) != n {
		return
	}
	k := 0
	for i := range got {
		for c18Blocks[k] == nil {
			k++
		}
		c18CertEq(&got[i], want[i], prop+": certificate read from a bundle equals the one encoded (no state carried over from its neighbours)")
		verifAssertBytesEq(got[i].raw.Bytes(), c18Blocks[k], prop+": certificate read from a bundle keeps its own signed bytes")
		k++
	}
	verifCover("bundle read")
}

//verif:prop C18
//verif:stub encoding/pem.Decode = c18PemDecode
//verif:replay none
//verif:bounds bundle of 2 certificates (every fixed field symbolic, 0..2 names with label length in {0,1,5}), optionally a foreign PEM block between them; PEM armour replaced by a fake decoder
//verif:cover bundle read
//verif:timeout 600
func VH_C18_certificates_in_a_bundle_are_read_independently() { c18Bundle("C18", 2) }

//verif:prop C18
//verif:stub encoding/pem.Decode = c18PemDecode
//verif:replay none
//verif:tier thorough
//verif:bounds as the 2-certificate variant with 3 certificates
//verif:cover bundle read
//verif:timeout 3000
func VH_C18_certificates_in_a_bundle_are_read_independently_3() { c18Bundle("C18", 3) }
