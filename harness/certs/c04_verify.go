package certs

import (
	"crypto"
	"crypto/ed25519"
	"io"
	"time"

	"hop.computer/hop/keys"
)

// C04 — certificate verification accepts exactly the valid chains.
//
// Signatures are idealised: the first byte of a signature names the key that
// made it, the first byte of a public key names the key, and verification
// succeeds iff they are equal AND the signed bytes are the child's raw
// to-be-signed prefix (recorded). Fingerprints range over 2 symbolic bytes
// (all the code ever does with them is compare them). Everything else about
// the certificates is symbolic.

var c04Sig struct {
	calls   int
	lastTBS []int
}

func c04VerifySignature(pk *keys.SigningPublicKey, data []byte, sig *[64]byte) bool {
	c04Sig.calls++
	c04Sig.lastTBS = append(c04Sig.lastTBS, len(data))
	return pk[0] == sig[0]
}

//verif:filestub hop.computer/hop/keys.VerifySignature = c04VerifySignature

func c04FP(tag string) SHA3Fingerprint {
	var fp SHA3Fingerprint
	fp[0] = verifU8(tag)
	fp[1] = verifU8(tag) & 1
	return fp
}

func c04Cert(tag string, nNames int) *Certificate {
	c := &Certificate{
		Type:        CertificateType(verifU8(tag + "-type")),
		IssuedAt:    time.Unix(int64(verifU32(tag+"-issued")), 0),
		ExpiresAt:   time.Unix(int64(verifU32(tag+"-expires")), 0),
		Fingerprint: c04FP(tag + "-fp"),
		Parent:      c04FP(tag + "-parent"),
	}
	c.PublicKey[0] = verifU8(tag + "-key")
	c.Signature[0] = verifU8(tag + "-signedby")
	rawLen := verifPick(tag+"-rawlen", 63, 64)
	c.raw.Write(make([]byte, rawLen))
	for i := 0; i < nNames; i++ {
		n := verifPick(tag+"-namelen", 0, 2)
		c.IDChunk.Blocks = append(c.IDChunk.Blocks, Name{Label: verifBytes(tag+"-name", n), Type: IDType(verifU8(tag+"-nametype") % 4)})
	}
	return c
}

func c04TimeOK(c *Certificate, now int64) bool {
	return verifAnd(c.IssuedAt.Unix() <= now, now < c.ExpiresAt.Unix())
}

func c04NameMatches(leaf *Certificate, want Name) bool {
	m := false
	for _, b := range leaf.IDChunk.Blocks {
		m = verifOr(m, verifAnd(b.Type == want.Type, verifBytesEq(b.Label, want.Label)))
	}
	return m
}

// VerifyLeaf returns nil if and only if the declarative chain predicate holds.
//
//verif:prop C04
//verif:replay none
//verif:bounds leaf with 0..1 names (label 0 or 2 symbolic bytes, 4 name types; 2 names in the MatchesName harness), presented intermediate or none, trust store of 0..2 certificates; for every certificate: type byte over all 256 values, issue/expiry seconds (32 bit), own and parent fingerprint (2 symbolic bytes), key id, signer id, raw length in {63,64}; requested name zero or 0..2 symbolic bytes; clock symbolic (explicit) ; signatures idealised (signer id == key id)
//verif:cover accepted;rejected-type;rejected-name;rejected-time;rejected-unknown;rejected-signature
//verif:timeout 3000
//verif:tier thorough
func VH_C04_verifyleaf_iff_valid_chain_3certs() { c04Iff(3) }

//verif:prop C04
//verif:replay none
//verif:bounds as the 3-certificate variant, with presented + store <= 2 certificates besides the leaf
//verif:cover accepted;rejected-type;rejected-name;rejected-time;rejected-unknown;rejected-signature
//verif:timeout 600
//verif:tier quick
func VH_C04_verifyleaf_iff_valid_chain() { c04Iff(2) }

func c04Iff(maxOthers int) {
	leaf := c04Cert("leaf", verifPick("leaf-names", 0, 1))
	var presented *Certificate
	if verifBool("presented") {
		presented = c04Cert("presented", 0)
	}
	var storeList []*Certificate
	var store Store
	ns := verifPick("store-size", 0, 1, 2)
	if presented != nil {
		verifAssume(ns+1 <= maxOthers)
	}
	for i := 0; i < ns; i++ {
		c := c04Cert("store", 0)
		storeList = append(storeList, c)
		store.AddCertificate(c)
	}
	var want Name
	hasName := verifBool("name-requested")
	if hasName {
		n := verifPick("want-namelen", 0, 2)
		want = Name{Label: verifBytes("want-name", n), Type: IDType(verifU8("want-nametype") % 4)}
	}
	now := int64(verifU32("now"))
	verifAssume(now > 0)
	err := store.VerifyLeaf(leaf, VerifyOptions{PresentedIntermediate: presented, Name: want, CurrentTime: time.Unix(now, 0)})

	// reference predicate, straight from the property text (branch-free).
	// candidates for "the certificate with fingerprint fp": the presented one
	// first, then the store, where a later entry replaces an earlier one with
	// the same fingerprint (map semantics).
	ok := leaf.Type == Leaf
	nameOK := verifOr(!hasName, c04NameMatches(leaf, want))
	timeOK := c04TimeOK(leaf, now)
	var cands []*Certificate
	var isInter []bool
	taken := false
	if presented != nil {
		m := presented.Fingerprint == leaf.Parent
		cands = append(cands, presented)
		isInter = append(isInter, m)
		taken = m
	}
	for i := ns - 1; i >= 0; i-- {
		m := storeList[i].Fingerprint == leaf.Parent
		cands = append(cands, storeList[i])
		isInter = append(isInter, verifAnd(!taken, m))
		taken = verifOr(taken, m)
	}
	chainOK := false
	for k, inter := range cands {
		interOK := verifAnd(inter.Type == Intermediate, c04TimeOK(inter, now))
		interOK = verifAnd(interOK, verifAnd(leaf.Signature[0] == inter.PublicKey[0], leaf.raw.Len() >= 64))
		rootFound := false
		anyRootOK := false
		for i := ns - 1; i >= 0; i-- {
			r := storeList[i]
			m := verifAnd(!rootFound, r.Fingerprint == inter.Parent)
			rootOK := verifAnd(r.Type == Root, c04TimeOK(r, now))
			rootOK = verifAnd(rootOK, verifAnd(inter.Signature[0] == r.PublicKey[0], inter.raw.Len() >= 64))
			anyRootOK = verifOr(anyRootOK, verifAnd(m, rootOK))
			rootFound = verifOr(rootFound, r.Fingerprint == inter.Parent)
		}
		chainOK = verifOr(chainOK, verifAnd(isInter[k], verifAnd(interOK, anyRootOK)))
	}
	valid := verifAnd(verifAnd(ok, nameOK), verifAnd(timeOK, chainOK))
	verifAssert((err == nil) == valid, "C04: VerifyLeaf succeeds if and only if the chain is valid (type, name, issuer fingerprints, signatures, validity of all three)")
	if err == nil {
		verifCover("accepted")
		verifAssert(c04Sig.calls == 2, "C04: an accepted chain had both signatures checked")
	} else if ve, isVE := err.(VerifyError); isVE {
		switch ve.Reason() {
		case ReasonInvalidCertificate:
			verifCover("rejected-type")
		case ReasonMismatchedName:
			verifCover("rejected-name")
		case ReasonTimeInvalid:
			verifCover("rejected-time")
		case ReasonUnknownIntermediate, ReasonUnknownRoot:
			verifCover("rejected-unknown")
		case ReasonUnverifiedParent:
			verifCover("rejected-signature")
		}
	}
}

// VerifyParent: the type table and the fingerprint / raw-length / signature gates.
//
//verif:prop C04
//verif:replay none
//verif:bounds child and parent with every field symbolic as above (types over all 256 values)
//verif:cover ok;refused
func VH_C04_verifyparent_table() {
	child := c04Cert("child", 0)
	parent := c04Cert("parent", 0)
	err := VerifyParent(child, parent)
	typeOK := verifOr(verifAnd(child.Type == Leaf, parent.Type == Intermediate),
		verifOr(verifAnd(child.Type == Intermediate, parent.Type == Root),
			verifAnd(child.Type == Root, verifAnd(parent.Type == Root, child.Parent == zero))))
	linkOK := verifOr(child.Type == Root, child.Parent == parent.Fingerprint)
	sigOK := verifAnd(child.raw.Len() >= 64, child.Signature[0] == parent.PublicKey[0])
	verifAssert((err == nil) == verifAnd(typeOK, verifAnd(linkOK, sigOK)), "C04: VerifyParent succeeds iff types pair up, the child names the parent's fingerprint, and the signature verifies under the parent's key")
	if err == nil {
		verifCover("ok")
		verifAssert(c04Sig.lastTBS[len(c04Sig.lastTBS)-1] == child.raw.Len()-64, "C04: the signature covers the raw certificate minus its 64 signature bytes")
	} else {
		verifCover("refused")
	}
}

// MatchesName / VerifyLeafFormat.
//
//verif:prop C04
//verif:bounds leaf with 0..2 names of 0..2 symbolic bytes; requested name 0..2 symbolic bytes
func VH_C04_matchesname_is_label_and_type() {
	leaf := c04Cert("leaf", verifPick("leaf-names", 0, 1, 2))
	n := verifPick("want-namelen", 0, 1, 2)
	want := Name{Label: verifBytes("want-name", n), Type: IDType(verifU8("want-nametype") % 4)}
	got := leaf.MatchesName(want)
	verifAssert(got == verifAnd(leaf.Type == Leaf, c04NameMatches(leaf, want)), "C04: a name matches iff the certificate is a leaf and some block has the same label AND type")
	err := VerifyLeafFormat(leaf, VerifyOptions{Name: want})
	verifAssert((err == nil) == verifAnd(leaf.Type == Leaf, c04NameMatches(leaf, want)), "C04: VerifyLeafFormat accepts exactly leaf-type certificates carrying the requested name")
}

// C01 rests on the same chain predicate ("a certificate chain that verifies
// for the expected name under the trust configuration").
//
//verif:prop C01
//verif:replay none
//verif:bounds as VH_C04_verifyleaf_iff_valid_chain
//verif:cover accepted;rejected-type;rejected-name;rejected-time;rejected-unknown;rejected-signature
//verif:timeout 600
func VH_C01_chain_verifies_iff_valid() { c04Iff(2) }

// ---- issuing functions: "every chain produced by the issuing functions verifies" ----

func c04NewKeyFromSeed(seed []byte) ed25519.PrivateKey {
	k := make([]byte, 64)
	copy(k, seed)
	return ed25519.PrivateKey(k)
}

// idealised signing: the first signature byte names the signing key (see the
// verification stub above), the rest is fresh.
func c04Sign(priv ed25519.PrivateKey, _ io.Reader, msg []byte, _ crypto.SignerOpts) ([]byte, error) {
	sig := verifFreshBytes("sig", 64)
	sig[0] = priv[0]
	return sig, nil
}

func c04KeyFor(c *Certificate) {
	k := new([KeyLen]byte)
	k[0] = c.PublicKey[0] // idealised key pair: same key id
	c.privateKey = k
}

// A chain root -> IssueIntermediate -> IssueLeafAt verifies at every instant of
// the leaf's own validity window, and the window honours the request up to the
// parent's expiry.
//
//verif:prop C04
//verif:replay none
//verif:stub crypto/ed25519.NewKeyFromSeed = c04NewKeyFromSeed
//verif:stub (crypto/ed25519.PrivateKey).Sign = c04Sign
//verif:stub golang.org/x/crypto/sha3.New256 = c18FakeSHA3
//verif:bounds root with symbolic validity window (32-bit seconds), key id and 2-byte fingerprint; intermediate issued by the real IssueIntermediate at an arbitrary clock reading; leaf issued by the real IssueLeafAt (symbolic instant, 32-bit seconds, symbolic validity 0..2^32-1 s) or IssueLeafWithValidity / IssueLeaf (clock reading) under a parent whose type is intermediate, root or leaf, with 0..1 names of 0 or 2 symbolic bytes, then serialised and parsed back; verification instant symbolic inside the leaf's window; signatures idealised (signature names the key id; key pair = same id), fingerprints fresh and assumed non-zero
//verif:cover intermediate refused;leaf refused;chain verified;leaf clamped;leaf not clamped;non-intermediate parent refused
//verif:timeout 600
func VH_C04_issued_chain_verifies_throughout_leaf_validity() {
	root := &Certificate{
		Version:     Version,
		Type:        Root,
		IssuedAt:    time.Unix(int64(verifU32("root-issued")), 0),
		ExpiresAt:   time.Unix(int64(verifU32("root-expires")), 0),
		Fingerprint: c04FP("root-fp"),
	}
	verifAssume(root.Fingerprint != zero)
	root.PublicKey[0] = verifU8("root-key")
	c04KeyFor(root)

	interID := &Identity{}
	interID.PublicKey[0] = verifU8("inter-key")
	inter, err := IssueIntermediate(root, interID)
	if err != nil {
		verifCover("intermediate refused")
		return
	}
	verifAssume(inter.Fingerprint != zero)
	verifAssert(verifAnd(!inter.IssuedAt.Before(root.IssuedAt), !inter.ExpiresAt.After(root.ExpiresAt)), "C04: an issued intermediate never outlives or predates its root")
	c04KeyFor(inter)

	leafID := &Identity{}
	leafID.PublicKey[0] = verifU8("leaf-key")
	var want Name
	if verifBool("leaf-named") {
		n := verifPick("leaf-namelen", 0, 2)
		want = Name{Label: verifBytes("leaf-name", n), Type: IDType(verifU8("leaf-nametype") % 4)}
		leafID.Names = []Name{want}
	}
	// the parent handed to the leaf-issuing entry point may be of any type:
	// only an intermediate can head a chain that verifies
	ptype := CertificateType(verifPick("leaf-parent-type", int(Intermediate), int(Root), int(Leaf)))
	inter.Type = ptype
	at := int64(verifU32("leaf-issued-at"))
	secs := int64(verifU32("leaf-validity-seconds"))
	var leaf *Certificate
	switch verifPick("entry-point", 0, 1, 2) {
	case 0:
		leaf, err = IssueLeafAt(inter, leafID, time.Unix(at, 0), time.Duration(secs)*time.Second)
	case 1:
		leaf, err = IssueLeafWithValidity(inter, leafID, time.Duration(secs)*time.Second)
		if err == nil {
			at = leaf.IssuedAt.Unix() // issued at the clock reading
		} else {
			verifAssume(false) // refusal conditions are asserted through IssueLeafAt
		}
	default:
		leaf, err = IssueLeaf(inter, leafID)
		secs = 7 * 24 * 3600
		if err == nil {
			at = leaf.IssuedAt.Unix()
		} else {
			verifAssume(false)
		}
	}
	if ptype != Intermediate {
		verifAssert(err != nil, "C04: no leaf-issuing entry point issues under a parent that is not an intermediate (such a chain can never verify)")
		verifCover("non-intermediate parent refused")
		return
	}
	parentValidAt := verifAnd(inter.IssuedAt.Unix() <= at, at < inter.ExpiresAt.Unix())
	if err != nil {
		verifCover("leaf refused")
		verifAssert(verifOr(secs == 0, !parentValidAt), "C04: IssueLeafAt refuses only a non-positive validity or an instant at which the parent is not valid")
		return
	}
	verifAssert(verifAnd(secs > 0, parentValidAt), "C04: IssueLeafAt issues only with a positive validity while the parent is valid")
	verifAssert(leaf.IssuedAt.Unix() == at, "C04: issued leaf starts at the requested instant")
	wantExp := at + secs
	if wantExp > inter.ExpiresAt.Unix() {
		wantExp = inter.ExpiresAt.Unix()
		verifCover("leaf clamped")
	} else {
		verifCover("leaf not clamped")
	}
	verifAssert(leaf.ExpiresAt.Unix() == wantExp, "C04: issued leaf expires at min(requested expiry, parent's expiry)")

	// what a peer verifies is the certificate as it arrives: serialise the
	// issued leaf and parse it back
	wire := &c18Buf{b: make([]byte, 0, 512)}
	_, werr := leaf.WriteTo(wire)
	verifAssert(werr == nil, "C04: an issued leaf serialises")
	parsed := &Certificate{}
	_, rerr := parsed.ReadFrom(wire)
	verifAssert(rerr == nil, "C04: an issued leaf parses back from its own serialisation")
	if werr != nil || rerr != nil {
		return
	}
	leaf = parsed

	var store Store
	store.AddCertificate(root)
	now := int64(verifU32("now"))
	verifAssume(leaf.IssuedAt.Unix() <= now && now < leaf.ExpiresAt.Unix())
	verr := store.VerifyLeaf(leaf, VerifyOptions{PresentedIntermediate: inter, Name: want, CurrentTime: time.Unix(now, 0)})
	verifAssert(verr == nil, "C04: a chain produced by the issuing functions verifies at every instant of the leaf's validity")
	verifCover("chain verified")
}

// A trust store is loaded from a PEM bundle: the certificates a store is built
// from must be the ones in the bundle (C04's "present in the trust store").
//
//verif:prop C04
//verif:stub encoding/pem.Decode = c18PemDecode
//verif:replay none
//verif:stub golang.org/x/crypto/sha3.New256 = c18FakeSHA3
//verif:nostub hop.computer/hop/keys.VerifySignature
//verif:bounds as VH_C18_certificates_in_a_bundle_are_read_independently
//verif:cover bundle read
//verif:timeout 600
func VH_C04_trust_store_bundle_is_read_certificate_by_certificate() { c18Bundle("C04", 2) }

// Names are compared byte for byte: "Testing" is not "testing" (certificates
// name keys, not DNS zones; a case-folding or Unicode-folding comparison lets
// one name stand in for another).
//
//verif:prop C01
//verif:bounds leaf with one name whose label is "t" + one symbolic byte; requested name "t" + one symbolic byte of the same type
//verif:cover equal;different
//verif:timeout 300
func VH_C01_names_match_byte_for_byte() { c04ExactName("C01") }

//verif:prop C04
//verif:bounds as VH_C01_names_match_byte_for_byte
//verif:cover equal;different
//verif:timeout 300
func VH_C04_names_match_byte_for_byte() { c04ExactName("C04") }

func c04ExactName(prop string) {
	a, b := verifU8("certified-byte"), verifU8("requested-byte")
	leaf := &Certificate{Type: Leaf}
	leaf.IDChunk.Blocks = []Name{{Type: TypeDNSName, Label: []byte{'t', a}}}
	got := leaf.MatchesName(Name{Type: TypeDNSName, Label: []byte{'t', b}})
	if a == b {
		verifCover("equal")
	} else {
		verifCover("different")
	}
	verifAssert(got == (a == b), prop+": a requested name matches a certified name iff their labels are the same bytes (no case or Unicode folding)")
}
