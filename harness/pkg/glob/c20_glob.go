package glob

// C20 — Glob is total and is glob matching.
//
// Pattern and input have symbolic lengths (0..N) and every byte is symbolic
// over all 256 values; the only distinguished value is '*'. The oracle is the
// textbook definition as a branch-free dynamic programme: dp[i][j] says
// "pattern[i:] can produce input[j:] by replacing each '*' with a string".

func c20Concretize(x, max int) int {
	for k := 0; k <= max; k++ {
		if x == k {
			return k
		}
	}
	verifAssume(false)
	return 0
}

func c20Spec(p, s string, m, n int) bool {
	var dp [10][10]bool
	for j := 0; j <= n; j++ {
		dp[m][j] = j == n
	}
	for i := m - 1; i >= 0; i-- {
		star := p[i] == '*'
		for j := n; j >= 0; j-- {
			if j == n {
				dp[i][j] = verifAnd(star, dp[i+1][n])
			} else {
				dp[i][j] = verifIteBool(star, verifOr(dp[i+1][j], dp[i][j+1]), verifAnd(p[i] == s[j], dp[i+1][j+1]))
			}
		}
	}
	return dp[0][0]
}

func c20Run(maxM, maxN int) {
	m := verifInt("len(pattern)")
	n := verifInt("len(input)")
	verifAssume(m >= 0 && m <= maxM)
	verifAssume(n >= 0 && n <= maxN)
	m = c20Concretize(m, maxM)
	n = c20Concretize(n, maxN)
	p := verifString("pattern", m)
	s := verifString("input", n)
	verifTerminationRequired()
	verifUnwind((m+1)*(n+1) + 3)
	got := Glob(p, s)
	verifUnwind(100)
	want := c20Spec(p, s, m, n)
	verifAssert(got == want, "C20: Glob(pattern,input) equals the declarative glob matcher")
	if got {
		verifCover("match")
	} else {
		verifCover("no-match")
	}
	if n == 0 {
		verifCover("empty-input")
	}
	if m == 0 {
		verifCover("empty-pattern")
	}
}

// Quick bound: len(pattern) <= 5, len(input) <= 5, all byte values.
//
//verif:prop C20
//verif:tier quick
//verif:bounds len(pattern) in 0..5, len(input) in 0..5, every byte symbolic over 0..255; loop unwinding (len(p)+1)*(len(s)+1)+3 (exceeding it = non-termination = violation)
//verif:cover match;no-match;empty-input;empty-pattern
//verif:timeout 300
func VH_C20_glob_5x5() { c20Run(5, 5) }

// Thorough bound: len(pattern) <= 7, len(input) <= 7.
//
//verif:prop C20
//verif:tier thorough
//verif:bounds len(pattern) in 0..7, len(input) in 0..7, every byte symbolic over 0..255
//verif:cover match;no-match;empty-input;empty-pattern
//verif:timeout 900
func VH_C20_glob_7x7() { c20Run(7, 7) }
