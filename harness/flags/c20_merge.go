package flags

import (
	"hop.computer/hop/config"
	"hop.computer/hop/core"
)

// C20 (consequence) — the only production caller of MatchHost: with a default
// configuration AND a file given with -C, the host blocks of BOTH files that
// match the destination are applied, the -C file's on top.

func c20Cfg(tag string, cmd string) (*config.ClientConfig, bool) {
	pats := []string{"host.example", "*.example", "other", "h*"}
	k := verifPick(tag+"-pattern", 0, 1, 2, 3)
	c := cmd
	return &config.ClientConfig{Hosts: []config.HostConfigOptional{{Patterns: []string{pats[k]}, Cmd: &c}}}, k != 2
}

//verif:prop C20
//verif:bounds destination "host.example"; a configuration given with -C and optionally a default configuration, each with one host block whose pattern is one of {"host.example", "*.example", "other", "h*"} and whose command identifies the file; real MatchHost / MergeWith / Glob
//verif:cover both-files;one-file;alias
func VH_C20_host_blocks_of_every_loaded_file_are_applied() {
	f := &ClientFlags{Address: &core.URL{Host: "host.example", User: "u", Port: "77"}}
	cc, ccMatches := c20Cfg("dash-C-file", "from -C file")
	var dc *config.ClientConfig
	dcMatches := false
	if verifBool("default-config-loaded") {
		dc, dcMatches = c20Cfg("default-file", "from default file")
		verifCover("both-files")
	} else {
		verifCover("one-file")
	}
	if dc != nil && dcMatches && verifBool("default-block-sets-a-hostname-alias") {
		// the default file resolves the requested host to another name: the
		// -C file's patterns are still matched against what the user ASKED for
		alias := "other"
		dc.Hosts[0].Hostname = &alias
		verifCover("alias")
	}
	hc, err := mergeClientFlagsAndConfig(f, cc, dc)
	verifAssert(err == nil && hc != nil, "C20: flags and configuration merge")
	if err != nil || hc == nil {
		return
	}
	switch {
	case ccMatches:
		verifAssert(hc.Cmd == "from -C file", "C20: a matching host block of the file given with -C is applied (on top of the default file's)")
	case dcMatches:
		verifAssert(hc.Cmd == "from default file", "C20: a matching host block of the default file is applied when the -C file has none")
	default:
		verifAssert(hc.Cmd == "", "C20: a host block that does not match the destination is not applied")
	}
}

// The host a user types reaches the pattern matching byte for byte: patterns
// are matched case-sensitively, so "GPU-01" must not be turned into "gpu-01" on
// the way (it would select another host block).
//
//verif:prop C20
//verif:bounds command-line address "hop://u@" + host + ":77" with host = "h" + one symbolic byte restricted to letters, digits and '-' (what a host name may contain); real core.ParseURL (net/url)
//verif:cover parsed
//verif:timeout 600
func VH_C20_requested_host_reaches_the_matching_unchanged() {
	b := verifU8("host-byte")
	verifAssume(verifOr(verifOr(verifAnd(b >= 'a', b <= 'z'), verifAnd(b >= 'A', b <= 'Z')), verifOr(verifAnd(b >= '0', b <= '9'), b == '-')))
	host := "h" + string([]byte{b})
	u, err := core.ParseURL("hop://u@" + host + ":77")
	verifAssert(err == nil && u != nil, "C20: a plain host name parses")
	if err != nil || u == nil {
		return
	}
	verifCover("parsed")
	verifAssert(len(u.Host) == 2 && u.Host[0] == 'h' && u.Host[1] == b, "C20: the host handed to the host-block matching is the host the user typed, byte for byte (no case folding)")
}
