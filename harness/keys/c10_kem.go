package keys

// C10 — the KEM public key in a ClientHello / ClientAck / hidden request is 800
// bytes chosen by the network. Whatever they are, parsing returns an error or a
// key that the callers (Encapsulate, MarshalBinary in the cookie check) can use:
// never a non-nil wrapper around nothing.
//
// The real circl ML-KEM-512 unpacking runs symbolically (coefficients are 12-bit
// fields of the input; values >= q are what make a key non-canonical).

//verif:prop C10
//verif:solver cvc5
//verif:bounds key field of length 800 with all bytes symbolic, or of length {0,1,799,801}
//verif:cover accepted;rejected
//verif:timeout 900
func VH_C10_kem_public_key_parse_returns_error_or_usable_key() {
	n := verifPick("key-field-length", 800, 0, 1, 799, 801)
	pk, err := ParseKEMPublicKeyFromBytes(verifBytes("kem-public-key", n))
	if err != nil {
		verifCover("rejected")
		verifAssert(pk == nil, "C10: a refused KEM public key yields no key object")
		return
	}
	verifCover("accepted")
	verifAssert(n == MlKem512PublicKeySize, "C10: only an 800-byte field parses as an ML-KEM-512 public key")
	verifAssert(pk != nil && *pk != nil, "C10: an accepted KEM public key is usable (never a wrapper around a nil key, which crashes the cookie check and the encapsulation)")
	if pk != nil && *pk != nil {
		b, merr := (*pk).MarshalBinary()
		verifAssert(merr == nil && len(b) == MlKem512PublicKeySize, "C10: an accepted KEM public key marshals back to 800 bytes")
	}
}
