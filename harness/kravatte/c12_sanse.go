package kravatte

// C12 — Kravatte-SANSE AEAD: layer logic over an UNINTERPRETED permutation.
//
// keccakF1600 (6 rounds, assembly) is replaced by 25 uninterpreted functions of
// the 25 input lanes: all the solver knows is that equal inputs give equal
// outputs. Everything above it - mask derivation, rolling, block splitting,
// padding, history/session logic, tag comparison, buffer handling - is the real
// code.

var c12LaneNames = [25]string{"p6l00", "p6l01", "p6l02", "p6l03", "p6l04", "p6l05", "p6l06", "p6l07", "p6l08", "p6l09", "p6l10", "p6l11", "p6l12", "p6l13", "p6l14", "p6l15", "p6l16", "p6l17", "p6l18", "p6l19", "p6l20", "p6l21", "p6l22", "p6l23", "p6l24"}

var c12PermInputs [][25]uint64

func c12Perm(a *[25]uint64) {
	in := *a
	c12PermInputs = append(c12PermInputs, in)
	for k := 0; k < 25; k++ {
		a[k] = verifUF64(c12LaneNames[k], in[0], in[1], in[2], in[3], in[4], in[5], in[6], in[7], in[8], in[9], in[10], in[11], in[12], in[13], in[14], in[15], in[16], in[17], in[18], in[19], in[20], in[21], in[22], in[23], in[24])
	}
}

//verif:filestub hop.computer/hop/kravatte.keccakF1600 = c12Perm

func c12EqAll(a, b []byte) bool {
	if len(a) != len(b) {
		return false
	}
	ok := true
	for i := range a {
		ok = verifAnd(ok, a[i] == b[i])
	}
	return ok
}

// Seal then Open with the same key and associated data returns the plaintext,
// for multi-message sessions on one instance pair.
//
//verif:prop C12
//verif:replay none
//verif:bounds key 16 symbolic bytes; two messages per session; |plaintext| and |ad| picked from {0,1,199,200,201,400} x {0,16,200,201} (quick), all bytes symbolic; permutation uninterpreted
//verif:cover roundtrip
//verif:timeout 600
func VH_C12_seal_open_roundtrip() {
	key := verifBytes("key", 16)
	s1, _ := NewSANSE(key)
	s2, _ := NewSANSE(key)
	for m := 0; m < 2; m++ {
		pl := verifPick("ptlen", 0, 1, 199, 200, 201, 400)
		al := verifPick("adlen", 0, 16, 200, 201)
		pt, ad := verifBytes("plaintext", pl), verifBytes("ad", al)
		ct := s1.Seal(nil, nil, pt, ad)
		verifAssert(len(ct) == pl+TagSize, "C12: ciphertext is plaintext length plus the tag")
		out, err := s2.Open(nil, nil, ct, ad)
		verifAssert(err == nil, "C12: opening a sealed message with the same key and associated data succeeds")
		if err == nil {
			verifAssert(c12EqAll(out, pt), "C12: opening a sealed message returns the plaintext")
		}
	}
	verifCover("roundtrip")
}

// Open accepts only what Seal produces: if Open succeeds on ANY bytes, sealing
// the returned plaintext gives back exactly those bytes (so a truncated tag
// comparison, or a tag that ignores part of the input, is a counterexample).
//
//verif:prop C12
//verif:replay none
//verif:solver cvc5
//verif:bounds key 16 symbolic bytes; arbitrary ciphertext (tag included) of length 32+{0,1,200,201} and ad of length {0,16,201}, all bytes symbolic; permutation uninterpreted
//verif:cover opened;refused
//verif:timeout 600
func VH_C12_open_accepts_only_genuine_seals() {
	key := verifBytes("key", 16)
	pl := verifPick("ptlen", 0, 1, 200, 201)
	al := verifPick("adlen", 0, 16, 201)
	ct, ad := verifBytes("ciphertext", pl+TagSize), verifBytes("ad", al)
	s1, _ := NewSANSE(key)
	pt, err := s1.Open(nil, nil, ct, ad)
	if err != nil {
		verifCover("refused")
		verifAssert(pt == nil, "C12: a refused message yields no plaintext")
		return
	}
	verifCover("opened")
	s2, _ := NewSANSE(key)
	re := s2.Seal(nil, nil, pt, ad)
	verifAssert(len(re) == len(ct), "C12: re-sealing the opened plaintext gives the same length")
	if len(re) == len(ct) {
		verifAssert(c12EqAll(re[pl:], ct[pl:]), "C12: a message opens only if ALL 32 bytes of its tag equal the tag of its plaintext under this key and associated data")
	}
}

// Mask derivation: the state handed to the permutation is key || 0x01 || 0...0
// for every key length 1..199 (so every key byte and the length influence the
// mask), and longer keys are refused.
//
//verif:prop C12
//verif:replay none
//verif:bounds every key length 1..210 (picked), all key bytes symbolic
//verif:cover accepted;refused
//verif:timeout 600
func VH_C12_mask_derivation_uses_every_key_byte() {
	n := verifInt("keylen")
	verifAssume(n >= 1 && n <= 210)
	for k := 1; k <= 210; k++ {
		if n == k {
			n = k
			break
		}
	}
	key := verifBytes("key", n)
	var kv Kravatte
	c12PermInputs = nil
	rc := kv.RefMaskInitialize(key)
	if n >= 200 {
		verifAssert(rc != 0, "C12: keys of 200 bytes or more are refused")
		verifCover("refused")
		return
	}
	verifCover("accepted")
	verifAssert(rc == 0 && len(c12PermInputs) == 1, "C12: the mask is one permutation of the padded key")
	if len(c12PermInputs) != 1 {
		return
	}
	st := c12PermInputs[0]
	ok := true
	for i := 0; i < 200; i++ {
		b := byte(st[i/8] >> (8 * (i % 8)))
		switch {
		case i < n:
			ok = verifAnd(ok, b == key[i])
		case i == n:
			ok = verifAnd(ok, b == 1)
		default:
			ok = verifAnd(ok, b == 0)
		}
	}
	verifAssert(ok, "C12: the permutation input is key || 0x01 || zeros (every key byte influences the mask)")
}

// Aliasing: sealing / opening in place (dst overlapping the input, at offset 0
// or behind a header) gives the same bytes as with separate buffers and leaves
// the associated data alone.
//
//verif:prop C12
//verif:replay none
//verif:bounds key 16 symbolic bytes, plaintext of {1,40,201} symbolic bytes, ad 16 symbolic bytes, header offset {0,4}
//verif:cover sealed-in-place;opened-in-place
//verif:timeout 600
func VH_C12_in_place_use_equals_out_of_place() {
	key := verifBytes("key", 16)
	pl := verifPick("ptlen", 1, 40, 201)
	hdr := verifPick("header", 0, 4)
	pt, ad := verifBytes("plaintext", pl), verifBytes("ad", 16)
	adCopy := append([]byte(nil), ad...)
	s1, _ := NewSANSE(key)
	want := s1.Seal(nil, nil, pt, ad)
	// in place: buffer = header | plaintext | room for the tag
	buf := make([]byte, hdr+pl+TagSize)
	copy(buf[hdr:], pt)
	s2, _ := NewSANSE(key)
	got := s2.Seal(buf[:hdr], nil, buf[hdr:hdr+pl], ad)
	verifAssert(len(got) == hdr+pl+TagSize, "C12: in-place Seal appends to dst")
	if len(got) == hdr+pl+TagSize {
		verifAssert(c12EqAll(got[hdr:], want), "C12: sealing in place (dst overlapping the plaintext) gives the same ciphertext")
	}
	verifAssert(c12EqAll(ad, adCopy), "C12: Seal does not modify the associated data")
	verifCover("sealed-in-place")
	// open in place
	buf2 := make([]byte, hdr+pl+TagSize)
	copy(buf2[hdr:], want)
	s3, _ := NewSANSE(key)
	out, err := s3.Open(buf2[:hdr], nil, buf2[hdr:], ad)
	verifAssert(err == nil, "C12: in-place Open succeeds")
	if err == nil && len(out) == hdr+pl {
		verifAssert(c12EqAll(out[hdr:], pt), "C12: opening in place gives the plaintext")
	}
	verifCover("opened-in-place")
}

// ---- specification differential for the Kravatte (Farfalle) function ----
//
// Reference written from the Kravatte Achouffe specification, sharing nothing
// with the package but the (uninterpreted) permutation: pad the input with a
// single 1 bit, split into 200-byte blocks, x ^= P(m_i ^ rollC^i(k)); one more
// rollC; y = P(x); z_j = P(rollE^j(y)) ^ k'.

func c12RefRollC(s [25]uint64) [25]uint64 {
	x0, x1, x2, x3, x4 := s[20], s[21], s[22], s[23], s[24]
	s[20], s[21], s[22], s[23] = x1, x2, x3, x4
	s[24] = (x0<<7 | x0>>57) ^ x1 ^ (x1 >> 3)
	return s
}

func c12RefRollE(s [25]uint64) [25]uint64 {
	var x [10]uint64
	copy(x[:], s[15:25])
	n := (x[0]<<7 | x[0]>>57) ^ (x[1]<<18 | x[1]>>46) ^ (x[2] & (x[1] >> 1))
	copy(s[15:24], x[1:10])
	s[24] = n
	return s
}

func c12RefKravatte(k [25]uint64, in []byte, outLen int) []byte {
	// pad10*: one byte 0x01 then zeros up to a multiple of 200
	m := append(append([]byte(nil), in...), 1)
	for len(m)%200 != 0 {
		m = append(m, 0)
	}
	var x [25]uint64
	kr := k
	for off := 0; off < len(m); off += 200 {
		st := kr
		for i := 0; i < 200; i++ {
			st[i/8] ^= uint64(m[off+i]) << (8 * (i % 8))
		}
		c12Perm(&st)
		for i := range x {
			x[i] ^= st[i]
		}
		kr = c12RefRollC(kr)
	}
	kr = c12RefRollC(kr)
	y := x
	c12Perm(&y)
	out := make([]byte, 0, outLen+200)
	for len(out) < outLen {
		st := y
		c12Perm(&st)
		for i := 0; i < 200; i++ {
			out = append(out, byte((st[i/8]^kr[i/8])>>(8*(i%8))))
		}
		y = c12RefRollE(y)
	}
	return out[:outLen]
}

//verif:prop C12
//verif:replay none
//verif:solver cvc5
//verif:bounds key 16 symbolic bytes; input length picked from {0,1,199,200,201,399,400,401,600}, output length from {1,32,200,201,400}; all bytes symbolic; permutation uninterpreted and shared with the reference
//verif:cover compared
//verif:timeout 900
func VH_C12_kravatte_equals_specification() {
	key := verifBytes("key", 16)
	il := verifPick("inlen", 0, 1, 199, 200, 201, 399, 400, 401, 600)
	ol := verifPick("outlen", 1, 32, 200, 201, 400)
	in := verifBytes("input", il)
	var kv Kravatte
	verifAssert(kv.RefMaskInitialize(key) == 0, "C12: mask initialisation succeeds")
	k := kv.k
	out := make([]byte, ol)
	verifAssert(kv.Kravatte(in, out, FlagNone) == 0, "C12: Kravatte call succeeds")
	want := c12RefKravatte(k, in, ol)
	verifAssert(c12EqAll(out, want), "C12: Kravatte output equals the specification (every input block is compressed, rolls and padding at every 200-byte boundary)")
	verifCover("compared")
}

// ---- specification differential for SANSE sessions ----
//
// Reference written from the SANSE definition (Farfalle paper, Algorithm 6) on
// top of the Farfalle construction for a SEQUENCE of strings: every string of
// the history is padded with a single 1 bit, split into 200-byte blocks,
// x ^= P(m_i ^ rollC^I(k)) with one extra roll after each string; the output
// is squeezed as in c12RefKravatte. The history is kept as a list of strings
// and re-compressed from scratch for every output (no incremental state, no
// queue, no phases — none of the implementation's bookkeeping).

type c12RefSANSE struct {
	k    [25]uint64
	hist [][]byte // strings with their final (appendix | e | pad) byte
	e    byte
}

func c12RefString(data []byte, appendix byte, appendixLen uint, e byte) []byte {
	return append(append([]byte(nil), data...), appendix|e<<appendixLen|1<<(appendixLen+1))
}

func (r *c12RefSANSE) f(extra []byte, outLen int) []byte {
	var x [25]uint64
	kr := r.k
	seq := r.hist
	if extra != nil {
		seq = append(append([][]byte(nil), r.hist...), extra)
	}
	for _, s := range seq {
		m := append([]byte(nil), s...)
		for len(m)%200 != 0 {
			m = append(m, 0)
		}
		for off := 0; off < len(m); off += 200 {
			st := kr
			for i := 0; i < 200; i++ {
				st[i/8] ^= uint64(m[off+i]) << (8 * (i % 8))
			}
			c12Perm(&st)
			for i := range x {
				x[i] ^= st[i]
			}
			kr = c12RefRollC(kr)
		}
		kr = c12RefRollC(kr)
	}
	y := x
	c12Perm(&y)
	out := make([]byte, 0, outLen+200)
	for len(out) < outLen {
		st := y
		c12Perm(&st)
		for i := 0; i < 200; i++ {
			out = append(out, byte((st[i/8]^kr[i/8])>>(8*(i%8))))
		}
		y = c12RefRollE(y)
	}
	return out[:outLen]
}

func (r *c12RefSANSE) wrap(ad, pt []byte) (ct, tag []byte) {
	if len(ad) > 0 || len(pt) == 0 {
		r.hist = append(r.hist, c12RefString(ad, 0, 1, r.e))
	}
	if len(pt) > 0 {
		ps := c12RefString(pt, 2, 2, r.e)
		tag = r.f(ps, TagSize)
		ks := r.f(c12RefString(tag, 3, 2, r.e), len(pt))
		ct = make([]byte, len(pt))
		for i := range pt {
			ct[i] = pt[i] ^ ks[i]
		}
		r.hist = append(r.hist, ps)
	} else {
		tag = r.f(nil, TagSize)
	}
	r.e ^= 1
	return ct, tag
}

func c12Session(msgs int) {
	key := verifBytes("key", 16)
	a, err := NewSANSE(key)
	verifAssert(err == nil, "C12: a 16-byte key is accepted")
	sealer := a.(*sanse)
	b, _ := NewSANSE(key)
	opener := b.(*sanse)
	// the session bit of a fresh instance is 0; any later message starts from
	// 0 or 1, so start from either (the invariant e in {0,1} is asserted below)
	e0 := uint32(verifU8("session-bit") & 1)
	sealer.e, opener.e = e0, e0
	ref := &c12RefSANSE{k: sealer.kravatte.k, e: byte(e0)}
	for m := 0; m < msgs; m++ {
		pl := verifPick("ptlen", 0, 1, 200)
		al := verifPick("adlen", 0, 1, 200)
		pt, ad := verifBytes("plaintext", pl), verifBytes("ad", al)
		wantCT, wantTag := ref.wrap(ad, pt)
		got := sealer.Seal(nil, nil, pt, ad)
		verifAssert(len(got) == pl+TagSize, "C12: ciphertext is plaintext length plus the tag")
		if len(got) != pl+TagSize {
			return
		}
		verifAssert(c12EqAll(got[:pl], wantCT), "C12: ciphertext of every message of a session equals the SANSE specification")
		verifAssert(c12EqAll(got[pl:], wantTag), "C12: tag of every message of a session equals the SANSE specification")
		verifAssert(sealer.e == uint32(ref.e), "C12: the session bit e is a single bit that toggles with every message (sealing side)")
		out, err := opener.Open(nil, nil, append(append([]byte(nil), wantCT...), wantTag...), ad)
		verifAssert(err == nil, "C12: the specification's ciphertext and tag open under the same key, associated data and history")
		if err == nil {
			verifAssert(c12EqAll(out, pt), "C12: opening the specification's ciphertext returns the plaintext")
		}
		verifAssert(opener.e == uint32(ref.e), "C12: the session bit e is a single bit that toggles with every message (opening side)")
	}
	verifCover("session compared")
}

//verif:prop C12
//verif:replay none
//verif:solver cvc5
//verif:bounds key 16 symbolic bytes; session bit of the first message 0 or 1; 2 consecutive messages on one sealing and one opening instance; |plaintext| and |ad| each picked from {0,1,200} per message, all bytes symbolic; permutation uninterpreted and shared with the reference
//verif:cover session compared
//verif:timeout 900
func VH_C12_sessions_equal_sanse_specification() { c12Session(2) }

//verif:prop C12
//verif:replay none
//verif:solver cvc5
//verif:tier thorough
//verif:bounds as the 2-message variant with 3 consecutive messages
//verif:cover session compared
//verif:timeout 3000
func VH_C12_sessions_equal_sanse_specification_3msgs() { c12Session(3) }

// The streaming interface (Kra in parts, Vatte in parts, FlagInit to start
// over) gives the outputs of the one-shot specification on the concatenated
// input; FlagInit discards whatever an unfinished earlier input left behind.
//
//verif:prop C12
//verif:replay none
//verif:solver cvc5
//verif:bounds key 16 symbolic bytes; optional unfinished earlier input of {1,13,200,213} bytes discarded by FlagInit; input fed as two parts of {0,8,200,208} + {0,1,200} bytes; output squeezed as {1,32,200} + {0,8,200} bytes; all bytes symbolic; permutation uninterpreted and shared with the reference
//verif:cover compared;restarted
//verif:timeout 900
func VH_C12_streaming_kra_vatte_equal_one_shot_specification() {
	key := verifBytes("key", 16)
	var kv Kravatte
	verifAssert(kv.RefMaskInitialize(key) == 0, "C12: mask initialisation succeeds")
	k := kv.k
	first := FlagNone
	if verifBool("unfinished-earlier-input") {
		junk := verifBytes("earlier-input", verifPick("earlier-len", 1, 13, 200, 213))
		verifAssert(kv.Kra(junk, 8*len(junk), FlagNone) == 0, "C12: Kra accepts a non-final byte-aligned part")
		first = FlagInit
		verifCover("restarted")
	}
	p1 := verifBytes("part1", verifPick("part1-len", 0, 8, 200, 208))
	p2 := verifBytes("part2", verifPick("part2-len", 0, 1, 200))
	verifAssert(kv.Kra(p1, 8*len(p1), first) == 0, "C12: Kra accepts the first part")
	verifAssert(kv.Kra(p2, 8*len(p2), FlagLastPart) == 0, "C12: Kra accepts the last part")
	o1 := make([]byte, verifPick("out1-len", 1, 32, 200))
	o2 := make([]byte, verifPick("out2-len", 0, 8, 200))
	if len(o2) > 0 {
		verifAssume(len(o1)%200 == 0) // XKCP: a non-final Vatte part is a whole number of blocks
		verifAssert(kv.Vatte(o1, 8*len(o1), FlagNone) == 0, "C12: Vatte produces the first part")
		verifAssert(kv.Vatte(o2, 8*len(o2), FlagLastPart) == 0, "C12: Vatte produces the last part")
	} else {
		verifAssert(kv.Vatte(o1, 8*len(o1), FlagLastPart) == 0, "C12: Vatte produces the output")
	}
	want := c12RefKravatte(k, append(append([]byte(nil), p1...), p2...), len(o1)+len(o2))
	verifAssert(c12EqAll(append(append([]byte(nil), o1...), o2...), want), "C12: streaming Kra/Vatte output equals the specification on the concatenated input (FlagInit starts from nothing)")
	verifCover("compared")
}

// The transport's use of the AEAD (C03 / C15 rest on it): a fresh instance per
// packet, the 16-byte header as associated data. Sealing equals the SANSE
// specification - so the tag covers EVERY header byte, counter and session id
// included - and a packet opens only if its tag is the specification's tag for
// the plaintext returned, the empty payload included.
func c12Transport(prop string) {
	key := verifBytes("key", 16)
	ad := verifBytes("header", 16)
	pl := verifPick("payload-len", 0, 1, 200)
	a, _ := NewSANSE(key)
	k := a.(*sanse).kravatte.k
	if verifBool("seal") {
		pt := verifBytes("payload", pl)
		got := a.Seal(nil, nil, pt, ad)
		ref := &c12RefSANSE{k: k}
		wantCT, wantTag := ref.wrap(ad, pt)
		verifAssert(len(got) == pl+TagSize, prop+": ciphertext is payload length plus the tag")
		if len(got) == pl+TagSize {
			verifAssert(c12EqAll(got[:pl], wantCT), prop+": packet body equals the SANSE specification")
			verifAssert(c12EqAll(got[pl:], wantTag), prop+": packet tag equals the SANSE specification over the WHOLE 16-byte header (type, session id, counter) and the payload")
		}
		verifCover("sealed")
		return
	}
	ct := verifBytes("body-and-tag", pl+TagSize)
	pt, err := a.Open(nil, nil, ct, ad)
	if err != nil {
		verifCover("refused")
		return
	}
	verifCover("opened")
	ref := &c12RefSANSE{k: k}
	_, wantTag := ref.wrap(ad, pt)
	verifAssert(c12EqAll(ct[pl:], wantTag), prop+": a packet authenticates only if all 32 tag bytes are the specification's tag for this header and the returned payload (an empty payload is no exception)")
}

//verif:prop C15
//verif:replay none
//verif:solver cvc5
//verif:bounds key 16 symbolic bytes, header (associated data) 16 symbolic bytes, payload length in {0,1,200}; Seal compared with the SANSE reference, Open on arbitrary body+tag bytes; permutation uninterpreted and shared with the reference
//verif:cover sealed;opened;refused
//verif:timeout 600
func VH_C15_packet_authentication_covers_the_whole_header_and_every_payload() { c12Transport("C15") }

//verif:prop C03
//verif:replay none
//verif:solver cvc5
//verif:bounds as VH_C15_packet_authentication_covers_the_whole_header_and_every_payload
//verif:cover sealed;opened;refused
//verif:timeout 600
func VH_C03_packet_authentication_covers_the_whole_header_and_every_payload() { c12Transport("C03") }
