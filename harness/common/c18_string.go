package common

import "io"

// C18 — common.WriteString / ReadString (used for commands, user names, denial
// reasons inside authgrant messages).

type c18Buf struct {
	b   []byte
	off int
}

func (v *c18Buf) Write(p []byte) (int, error) {
	v.b = append(v.b, p...)
	return len(p), nil
}

func (v *c18Buf) Read(p []byte) (int, error) {
	if v.off >= len(v.b) {
		return 0, io.EOF
	}
	n := copy(p, v.b[v.off:])
	v.off += n
	return n, nil
}

// Encoding a string either fails or decodes to the same string, consuming
// exactly what was written.
//
//verif:prop C18
//verif:bounds string length symbolic 0..300 (straddles the one-byte length field at 255/256), bytes symbolic
//verif:cover short;rejected
func VH_C18_string_roundtrip() {
	n := verifInt("len")
	verifAssume(n >= 0 && n <= 300)
	s := verifString("s", n)
	w := &c18Buf{b: make([]byte, 0, 1024)}
	_, err := WriteString(s, w)
	if err != nil {
		verifCover("rejected")
		return
	}
	if n < 256 {
		verifCover("short")
	} else {
		verifCover("long")
	}
	got, _, err := ReadString(w)
	verifAssert(err == nil, "C18: WriteString output is readable by ReadString")
	if err != nil {
		return
	}
	verifAssertStrEq(got, s, "C18: ReadString(WriteString(s)) == s (over-long strings must be rejected, not mis-framed)")
	verifAssert(w.off == len(w.b), "C18: ReadString consumes exactly what WriteString wrote")
}

// A reader may deliver a message in pieces (a tube hands out what has arrived;
// a TCP or pipe connection segments as it likes). ReadString must then return
// the WHOLE string or an error - never a silently shortened one (a command
// grant for "rm -rf /tmp/build" must not be stored as "rm -rf /").
type c18Frag struct {
	b    []byte
	off  int
	step int // at most this many bytes per Read
}

func (v *c18Frag) Read(p []byte) (int, error) {
	if v.off >= len(v.b) {
		return 0, io.EOF
	}
	q := p
	if len(q) > v.step {
		q = q[:v.step]
	}
	n := copy(q, v.b[v.off:])
	v.off += n
	return n, nil
}

func c18Fragmented(prop string) {
	n := verifPick("len", 0, 1, 2, 23, 255)
	s := verifString("s", n)
	w := &c18Buf{b: make([]byte, 0, 512)}
	_, err := WriteString(s, w)
	verifAssert(err == nil, prop+": a string of at most 255 bytes is written")
	avail := verifPick("bytes-that-arrive", 0, 1, 2, 3, 24, 256)
	verifAssume(avail <= len(w.b))
	r := &c18Frag{b: w.b[:avail], step: verifPick("bytes-per-read", 1, 8, 1000)}
	got, _, err := ReadString(r)
	if err != nil {
		verifCover("error")
		verifAssert(avail < len(w.b), prop+": ReadString fails only when bytes are missing")
		return
	}
	verifCover("whole")
	verifAssert(avail == len(w.b), prop+": ReadString succeeds only when the whole string has arrived")
	verifAssertStrEq(got, s, prop+": a string read in pieces is the string written - whole, never a prefix")
}

//verif:prop C18
//verif:bounds string length in {0,1,2,23,255} with symbolic bytes; the reader hands out at most 1, 8 or 1000 bytes per call and ends after 0,1,2,3,24 or all bytes
//verif:cover whole;error
func VH_C18_readstring_from_a_fragmenting_reader_is_whole_or_an_error() { c18Fragmented("C18") }

//verif:prop C07
//verif:bounds as VH_C18_readstring_from_a_fragmenting_reader_is_whole_or_an_error (the command text and user name of a grant are decoded by ReadString)
//verif:cover whole;error
func VH_C07_granted_command_text_is_never_stored_truncated() { c18Fragmented("C07") }
