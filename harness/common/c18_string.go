package common

import "io"

// C18 — common.WriteString / ReadString (used for commands, user names, denial
// reasons inside authgrant messages).

type c18Buf struct {
	b   []byte
	off int
}

func (v *c18Buf) Write(p []byte) (int, error) {
	v.b = append(v.b, p...)
	return len(p), nil
}

func (v *c18Buf) Read(p []byte) (int, error) {
	if v.off >= len(v.b) {
		return 0, io.EOF
	}
	n := copy(p, v.b[v.off:])
	v.off += n
	return n, nil
}

// Encoding a string either fails or decodes to the same string, consuming
// exactly what was written.
//
//verif:prop C18
//verif:bounds string length symbolic 0..300 (straddles the one-byte length field at 255/256), bytes symbolic
//verif:cover short;rejected
func VH_C18_string_roundtrip() {
	n := verifInt("len")
	verifAssume(n >= 0 && n <= 300)
	s := verifString("s", n)
	w := &c18Buf{b: make([]byte, 0, 1024)}
	_, err := WriteString(s, w)
	if err != nil {
		verifCover("rejected")
		return
	}
	if n < 256 {
		verifCover("short")
	} else {
		verifCover("long")
	}
	got, _, err := ReadString(w)
	verifAssert(err == nil, "C18: WriteString output is readable by ReadString")
	if err != nil {
		return
	}
	verifAssertStrEq(got, s, "C18: ReadString(WriteString(s)) == s (over-long strings must be rejected, not mis-framed)")
	verifAssert(w.off == len(w.b), "C18: ReadString consumes exactly what WriteString wrote")
}
