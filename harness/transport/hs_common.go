package transport

import (
	"errors"
	"hash"
	"io"

	"github.com/cloudflare/circl/kem"

	"hop.computer/hop/certs"
	"hop.computer/hop/cyclist"
	"hop.computer/hop/keys"
)

// Handshake-layer scaffolding (C01, C02, C10, C19).
//
// The duplex, the KEM, X25519 and SHA3 are replaced by RECORDERS with fresh
// outputs: every Squeeze / Decrypt / DH / Decapsulate result is an
// unconstrained fresh value and every call is logged with the bytes it was
// given. The harnesses then assert the STRUCTURE the protocol's security
// argument rests on: which received bytes are bound into the transcript and in
// which order, which comparison gates which return, which key the static DH is
// computed over, and that nothing beyond the datagram is consumed. With a
// collision-free duplex this is exactly what makes "any change aborts" and
// "only the key holder completes" true; the strength of the primitives is not
// claimed here (C12, C13).

type hsEv struct {
	kind byte // 'A' absorb, 'S' squeeze, 'D' decrypt, 'E' encrypt, 'I' init, 'R' ratchet, 'K' squeeze-key, 'X' dh, 'C' decapsulate, 'N' encapsulate, 'V' verify
	in   []byte
	out  []byte
	ok   bool
}

var hsLog []hsEv

func hsReset() { hsLog = nil; sessLog.opens = nil; sessLog.seals = nil }

func hsCopy(b []byte) []byte { return append([]byte(nil), b...) }

func hsAbsorb(c *cyclist.Cyclist, x []byte) { hsLog = append(hsLog, hsEv{kind: 'A', in: hsCopy(x)}) }
func hsSqueeze(c *cyclist.Cyclist, y []byte) {
	out := verifFreshBytes("squeeze", len(y))
	copy(y, out)
	hsLog = append(hsLog, hsEv{kind: 'S', out: out})
}
func hsSqueezeKey(c *cyclist.Cyclist, y []byte) {
	out := verifFreshBytes("squeezekey", len(y))
	copy(y, out)
	hsLog = append(hsLog, hsEv{kind: 'K', out: out})
}
func hsDecrypt(c *cyclist.Cyclist, pt, ct []byte) {
	in := hsCopy(ct)
	out := verifFreshBytes("decrypted", len(ct))
	copy(pt, out)
	hsLog = append(hsLog, hsEv{kind: 'D', in: in, out: out})
}
func hsEncrypt(c *cyclist.Cyclist, ct, pt []byte) {
	in := hsCopy(pt)
	out := verifFreshBytes("encrypted", len(pt))
	copy(ct, out)
	hsLog = append(hsLog, hsEv{kind: 'E', in: in, out: out})
}
func hsInitEmpty(c *cyclist.Cyclist) { hsLog = append(hsLog, hsEv{kind: 'I'}) }
func hsInit(c *cyclist.Cyclist, key, id, counter []byte) {
	hsLog = append(hsLog, hsEv{kind: 'I', in: hsCopy(key)})
}
func hsRatchet(c *cyclist.Cyclist) { hsLog = append(hsLog, hsEv{kind: 'R'}) }

// X25519
func hsDH(x *keys.X25519KeyPair, other []byte) ([]byte, error) {
	out := verifFreshBytes("dh", 32)
	hsLog = append(hsLog, hsEv{kind: 'X', in: hsCopy(other), out: out})
	return out, nil
}
func hsGenerate(x *keys.X25519KeyPair) {
	copy(x.Private[:], verifFreshBytes("dh-private", 32))
	copy(x.Public[:], verifFreshBytes("dh-public", 32))
}

// ML-KEM: public keys are opaque byte strings of the right size.
type hsKemPub struct{ b []byte }

func (p *hsKemPub) Scheme() kem.Scheme             { return nil }
func (p *hsKemPub) MarshalBinary() ([]byte, error) { return hsCopy(p.b), nil }
func (p *hsKemPub) Equal(o kem.PublicKey) bool     { return false }

func hsParseKEMPublicKey(data []byte) (*keys.KEMPublicKey, error) {
	if len(data) != KemKeyLen {
		return nil, errors.New("KEM: public key cannot be parsed from the buffer")
	}
	var k keys.KEMPublicKey = &hsKemPub{b: hsCopy(data)}
	return &k, nil
}
func hsDecapsulate(kp *keys.KEMKeyPair, ct []byte) ([]byte, error) {
	if len(ct) != KemCtLen {
		return nil, errors.New("KEM: malformed ciphertext")
	}
	out := verifFreshBytes("kem-shared", PQSharedSecretLen)
	hsLog = append(hsLog, hsEv{kind: 'C', in: hsCopy(ct), out: out})
	return out, nil
}
func hsEncapsulate(rng io.Reader, dest *keys.KEMPublicKey) ([]byte, []byte, error) {
	ct, k := verifFreshBytes("kem-ct", KemCtLen), verifFreshBytes("kem-shared", PQSharedSecretLen)
	hsLog = append(hsLog, hsEv{kind: 'N', in: ct, out: k})
	return ct, k, nil
}
func hsGenerateKEMKeyPair(rng io.Reader) (*keys.KEMKeyPair, error) {
	return &keys.KEMKeyPair{Public: &hsKemPub{b: verifFreshBytes("kem-public", KemKeyLen)}}, nil
}
func hsGenerateKEMKeyPairFromSeed(seed []byte) (*keys.KEMKeyPair, error) {
	return &keys.KEMKeyPair{Public: &hsKemPub{b: verifFreshBytes("kem-public", KemKeyLen)}, Seed: keys.KEMSeed(hsCopy(seed))}, nil
}

// SHA3-256 recorder (CookieAD).
type hsHash struct{ in []byte }

var hsHashLog []struct{ in, out []byte }

func (h *hsHash) Write(p []byte) (int, error) { h.in = append(h.in, p...); return len(p), nil }
func (h *hsHash) Sum(b []byte) []byte {
	out := verifFreshBytes("sha3", 32)
	hsHashLog = append(hsHashLog, struct{ in, out []byte }{hsCopy(h.in), out})
	return append(b, out...)
}
func (h *hsHash) Reset()         { h.in = nil }
func (h *hsHash) Size() int      { return 32 }
func (h *hsHash) BlockSize() int { return 136 }
func hsNewSHA3() hash.Hash       { return &hsHash{} }

// certificate parsing + policy, as one nondeterministic verdict (its own logic
// is the subject of VH_C01_policy_*).
var hsVerify struct {
	calls   int
	ok      bool
	leafKey [32]byte
	atEvent int // len(hsLog) when it ran
	rawLeaf []byte
}

var hsVerifyPolicy *VerifyConfig

func hsCertVerifier(hs *HandshakeState, rawLeaf, rawIntermediate []byte) (certs.Certificate, certs.Certificate, error) {
	hsVerifyPolicy = hs.certVerify
	hsVerify.calls++
	hsVerify.atEvent = len(hsLog)
	hsVerify.rawLeaf = rawLeaf
	var leaf certs.Certificate
	if !verifBool("certificate-chain-verifies") {
		hsVerify.ok = false
		return leaf, certs.Certificate{}, errors.New("certificate verification failed (harness)")
	}
	hsVerify.ok = true
	copy(hsVerify.leafKey[:], verifFreshBytes("leaf-public-key", 32))
	leaf.PublicKey = hsVerify.leafKey
	return leaf, certs.Certificate{}, nil
}

// hsSqueezes returns the outputs of all Squeeze events so far, in order.
func hsSqueezes() [][]byte {
	var out [][]byte
	for _, e := range hsLog {
		if e.kind == 'S' {
			out = append(out, e.out)
		}
	}
	return out
}

// hsEq16 compares 16 bytes without forking.
func hsEq(a, b []byte, n int) bool {
	if len(a) < n || len(b) < n {
		return false
	}
	ok := true
	for i := 0; i < n; i++ {
		ok = verifAnd(ok, a[i] == b[i])
	}
	return ok
}

// hsDatagram: a datagram of symbolic length n <= max inside the endpoint's
// reused receive buffer (capacity max+slack); the bytes beyond n are arbitrary
// stale contents.
// hsAnyLength: set by the C10 wrappers - the datagram may then have ANY length
// from 0 up to 4 KiB instead of the neighbourhood of the message's own length.
var hsAnyLength bool

func hsDatagram(tag string, min, max int) ([]byte, int) {
	if hsAnyLength {
		min, max = 0, 4096
	}
	n := verifInt(tag + "-len")
	verifAssume(n >= min && n <= max)
	buf := verifBytes(tag, max+64)
	return buf[:n], n
}

//verif:filestub (*hop.computer/hop/cyclist.Cyclist).Absorb = hsAbsorb
//verif:filestub (*hop.computer/hop/cyclist.Cyclist).Squeeze = hsSqueeze
//verif:filestub (*hop.computer/hop/cyclist.Cyclist).SqueezeKey = hsSqueezeKey
//verif:filestub (*hop.computer/hop/cyclist.Cyclist).Decrypt = hsDecrypt
//verif:filestub (*hop.computer/hop/cyclist.Cyclist).Encrypt = hsEncrypt
//verif:filestub (*hop.computer/hop/cyclist.Cyclist).InitializeEmpty = hsInitEmpty
//verif:filestub (*hop.computer/hop/cyclist.Cyclist).Initialize = hsInit
//verif:filestub (*hop.computer/hop/cyclist.Cyclist).Ratchet = hsRatchet

// crypto/rand.Read for the server harnesses: fresh bytes; a freshly drawn
// 4-byte session id is assumed not to collide with the live session's id (a
// 2^-32 event that the code retries 100 times before panicking).
var hsAvoidSID [4]byte
var hsAvoidSIDs [][4]byte

func hsRandRead(b []byte) (int, error) {
	r := verifFreshBytes("rand", len(b))
	copy(b, r)
	if len(b) == 4 {
		verifAssume(!hsEq(b, hsAvoidSID[:], 4))
		for i := range hsAvoidSIDs {
			verifAssume(!hsEq(b, hsAvoidSIDs[i][:], 4))
		}
	}
	return len(b), nil
}
