package transport

import "net"

// C03 / C15 — what a session delivers, and when its peer address moves.

type c03Out struct {
	delivered bool
	msg       []byte
	opened    bool
	rec       sessOpenRec
	err       error
}

// c03Step runs one datagram through the server's or the client's handler from
// an arbitrary session state and asserts the delivery contract.
func c03Step(server bool, prop string) {
	ss := sessState(2)
	ss.handleState = connState(verifPick("handleState", int(finishingHandshake), int(established), int(closed)))
	var rk *[KeyLen]byte
	if server {
		rk = &ss.clientToServerKey
		ss.writeKey = &ss.serverToClientKey
	} else {
		rk = &ss.serverToClientKey
		ss.writeKey = &ss.clientToServerKey
	}
	ss.readKey = rk
	n := verifInt("datagram-len")
	verifAssume(n >= 0 && n <= 65535)
	msg := verifBytes("datagram", n)
	from := sessAddr("from")

	// the application may not be draining the receive queue: empty or full
	prefill := verifPick("recv-queue-prefilled", 0, 2)
	for i := 0; i < prefill; i++ {
		ss.handle.recv.C <- []byte{0xEE}
	}
	oldState, oldWin, oldAddr := ss.handleState, ss.window, ss.remoteAddr
	var err error
	if server {
		s := &Server{sessions: map[SessionID]*SessionState{ss.sessionID: ss}, handshakes: map[string]*HandshakeState{}}
		err = s.handleSessionMessage(from, msg)
	} else {
		c := &Client{ss: ss}
		err = c.handleSessionMessage(from, msg)
	}
	nOpen := len(sessLog.opens)
	opened := nOpen > 0 && sessLog.opens[nOpen-1].ok
	delivered := len(ss.handle.recv.C) > prefill
	for i := 0; i < prefill; i++ {
		<-ss.handle.recv.C
	}

	if prop == "C03" {
		verifAssert(nOpen <= 1, "C03: at most one AEAD open per datagram")
		if delivered || ss.handleState != oldState || ss.window != oldWin || ss.remoteAddr != oldAddr {
			// anything observable happened: it must rest on a successful open of
			// exactly this datagram under this direction's key
			verifAssert(opened, "C03: nothing is delivered and no state moves (lifecycle, replay window, peer address) unless the datagram authenticated")
		}
		if opened {
			rec := sessLog.opens[nOpen-1]
			verifAssert(n >= 32, "C03: an authenticated datagram has header, counter and tag")
			verifAssert(verifAnd(rec.keyLen == KeyLen, rec.key == *rk), "C03: the datagram is opened under this direction's read key")
			verifAssert(len(rec.ad) == 16, "C03: associated data is the 16-byte header")
			if len(rec.ad) == 16 && n >= 32 {
				adOK := true
				for i := 0; i < 16; i++ {
					adOK = verifAnd(adOK, rec.ad[i] == msg[i])
				}
				verifAssert(adOK, "C03: associated data is the received type, session id and counter")
				verifAssert(rec.ctLen == n-16, "C03: the whole body after the header is what gets opened")
				verifAssertBytesEq(rec.ct, msg[16:], "C03: the opened ciphertext is the received body")
				verifAssert(verifOr(msg[0] == byte(MessageTypeTransport), msg[0] == byte(MessageTypeControl)), "C03: only transport/control types are opened")
				verifAssert(verifAnd(msg[1] == 0, verifAnd(msg[2] == 0, msg[3] == 0)), "C03: reserved header bytes are zero")
				verifAssert(verifAnd(verifAnd(msg[4] == ss.sessionID[0], msg[5] == ss.sessionID[1]), verifAnd(msg[6] == ss.sessionID[2], msg[7] == ss.sessionID[3])), "C03: session id matches")
				ctr := uint64(msg[8])<<56 | uint64(msg[9])<<48 | uint64(msg[10])<<40 | uint64(msg[11])<<32 | uint64(msg[12])<<24 | uint64(msg[13])<<16 | uint64(msg[14])<<8 | uint64(msg[15])
				verifAssert(oldWin.Check(ctr), "C03: the counter was fresh when the datagram was accepted")
				if ctr < 1<<63 {
					// counters >= 2^63 are outside C14's (and an honest sender's) range
					verifAssert(!ss.window.Check(ctr), "C03: an accepted counter is recorded (at-most-once)")
				}
			}
			if delivered {
				got := <-ss.handle.recv.C
				verifAssert(msg[0] == byte(MessageTypeTransport), "C03: only transport-type datagrams are delivered to the reader")
				verifAssertBytesEq(got, rec.pt, "C03: the delivered message is exactly the opened plaintext")
				verifCover("delivered")
			}
			if ss.handleState == closed && oldState != closed {
				verifAssert(msg[0] == byte(MessageTypeControl), "C03: only an authenticated control message closes the session")
				verifCover("closed-by-control")
			}
		} else {
			verifCover("rejected")
		}
	}
	// whatever the property: a well-formed packet for this session with a fresh
	// counter is TRIED against the AEAD - whatever its payload length, zero
	// included - and what is authenticated is the whole 16-byte header, counter
	// included (otherwise a rewritten counter replays an accepted packet)
	if n >= 16+TagLen && oldState != closed {
		ctr0 := uint64(msg[8])<<56 | uint64(msg[9])<<48 | uint64(msg[10])<<40 | uint64(msg[11])<<32 | uint64(msg[12])<<24 | uint64(msg[13])<<16 | uint64(msg[14])<<8 | uint64(msg[15])
		wellFormed := verifAnd(verifOr(msg[0] == byte(MessageTypeTransport), msg[0] == byte(MessageTypeControl)), verifAnd(msg[1] == 0, verifAnd(msg[2] == 0, msg[3] == 0)))
		wellFormed = verifAnd(wellFormed, verifAnd(verifAnd(msg[4] == ss.sessionID[0], msg[5] == ss.sessionID[1]), verifAnd(msg[6] == ss.sessionID[2], msg[7] == ss.sessionID[3])))
		if wellFormed && oldWin.Check(ctr0) {
			verifAssert(nOpen == 1, prop+": a well-formed packet with a fresh counter is tried against the session key whatever its payload length (an authentic empty message is a message)")
			verifCover("tried")
		}
	}
	if nOpen > 0 && n >= 32 {
		rec0 := sessLog.opens[nOpen-1]
		adAll := len(rec0.ad) == 16
		if adAll {
			for i := 0; i < 16; i++ {
				adAll = verifAnd(adAll, rec0.ad[i] == msg[i])
			}
		}
		verifAssert(adAll, prop+": the associated data authenticated with a packet is its whole 16-byte header - type, session id AND counter")
	}
	if prop == "C14" {
		// what the filter gets to see: only counters of packets that authenticated
		if !opened {
			verifAssert(ss.window == oldWin, "C14: a packet that does not authenticate never consumes its counter or moves the window (or a forger could make the filter reject the genuine packet)")
			verifCover("forged")
		} else if n >= 32 {
			ctr := uint64(msg[8])<<56 | uint64(msg[9])<<48 | uint64(msg[10])<<40 | uint64(msg[11])<<32 | uint64(msg[12])<<24 | uint64(msg[13])<<16 | uint64(msg[14])<<8 | uint64(msg[15])
			verifAssert(oldWin.Check(ctr), "C14: only a counter the filter accepted reaches the AEAD")
			if ctr < 1<<63 {
				verifAssert(!ss.window.Check(ctr), "C14: the counter of an authenticated packet is recorded")
			}
			verifCover("genuine")
		}
	}
	if prop == "C15" {
		if ss.remoteAddr != oldAddr {
			verifAssert(opened, "C15: the peer address moves only after a datagram authenticated")
			verifAssert(ss.remoteAddr == from, "C15: the new peer address is the source of that datagram")
			verifAssert(err == nil, "C15: the address does not move on an error path")
			verifCover("moved")
		}
		if opened && msg[0] == byte(MessageTypeTransport) {
			// roaming works: after a genuine packet the session points at its
			// source, whether or not the application had room to queue it
			if prefill > 0 {
				verifCover("genuine-while-queue-full")
			}
			verifAssert(sessAddrEq(ss.remoteAddr, from), "C15: after a genuine packet from a new address (IP or port), traffic goes to that address")
			verifCover("genuine")
		}
		if !opened {
			verifAssert(ss.remoteAddr == oldAddr, "C15: forged, corrupted or replayed datagrams never redirect traffic")
			verifCover("forged")
		}
	}
}

//verif:prop C03
//verif:replay none
//verif:stub hop.computer/hop/kravatte.NewSANSE = sessNewSANSE
//verif:bounds one datagram, length symbolic 0..65535, all bytes symbolic, from an arbitrary session state (keys, window, lifecycle, peer address, receive queue of capacity 2 empty or full); AEAD open nondeterministic and recorded
//verif:cover delivered;closed-by-control;rejected;tried
func VH_C03_server_receive_step() { c03Step(true, "C03") }

//verif:prop C03
//verif:replay none
//verif:stub hop.computer/hop/kravatte.NewSANSE = sessNewSANSE
//verif:bounds as the server variant
//verif:cover delivered;closed-by-control;rejected;tried
func VH_C03_client_receive_step() { c03Step(false, "C03") }

//verif:prop C15
//verif:replay none
//verif:stub hop.computer/hop/kravatte.NewSANSE = sessNewSANSE
//verif:bounds one datagram of symbolic length and content from an arbitrary source address against an arbitrary session state, receive queue (capacity 2) empty or full; AEAD open nondeterministic and recorded
//verif:cover moved;genuine;forged;genuine-while-queue-full;tried
func VH_C15_server_address_moves_only_on_authentic() { c03Step(true, "C15") }

//verif:prop C15
//verif:replay none
//verif:stub hop.computer/hop/kravatte.NewSANSE = sessNewSANSE
//verif:bounds as the server variant
//verif:cover moved;genuine;forged;genuine-while-queue-full;tried
func VH_C15_client_address_moves_only_on_authentic() { c03Step(false, "C15") }

// C15: traffic is sent to the session's current peer address.
//
//verif:prop C15
//verif:replay none
//verif:stub hop.computer/hop/kravatte.NewSANSE = sessNewSANSE
//verif:bounds one WriteMsg of 0..64 symbolic bytes on an arbitrary established session
//verif:cover sent
func VH_C15_send_goes_to_current_peer_address() {
	ss := sessState(1)
	ss.handleState = established
	ss.readKey, ss.writeKey = &ss.clientToServerKey, &ss.serverToClientKey
	u := ss.handle.underlying.(*sessUDP)
	n := verifInt("len")
	verifAssume(n >= 0 && n <= 64)
	want := ss.remoteAddr
	err := ss.handle.WriteMsg(verifBytes("payload", n))
	verifAssert(err == nil, "C15: WriteMsg on an established session succeeds")
	verifAssert(u.writes == 1, "C15: one datagram per message")
	verifAssert(u.lastAddr == want, "C15: the datagram goes to the session's current peer address")
	verifCover("sent")
	_ = net.IPv4len
}

//verif:prop C14
//verif:replay none
//verif:stub hop.computer/hop/kravatte.NewSANSE = sessNewSANSE
//verif:bounds as VH_C03_server_receive_step
//verif:cover forged;genuine;tried
func VH_C14_only_authenticated_packets_reach_the_filters_memory() { c03Step(true, "C14") }
