package transport

import (
	"errors"
	"io"
	"net"
	"time"

	"hop.computer/hop/authkeys"
	"hop.computer/hop/certs"
	"hop.computer/hop/keys"
)

// C19 / C01 / C02 / C10 — the server's handling of handshake datagrams.

//verif:filestub (*hop.computer/hop/cyclist.Cyclist).Absorb = hsAbsorb
//verif:filestub (*hop.computer/hop/cyclist.Cyclist).Squeeze = hsSqueeze
//verif:filestub (*hop.computer/hop/cyclist.Cyclist).SqueezeKey = hsSqueezeKey
//verif:filestub (*hop.computer/hop/cyclist.Cyclist).Decrypt = hsDecrypt
//verif:filestub (*hop.computer/hop/cyclist.Cyclist).Encrypt = hsEncrypt
//verif:filestub (*hop.computer/hop/cyclist.Cyclist).InitializeEmpty = hsInitEmpty
//verif:filestub (*hop.computer/hop/cyclist.Cyclist).Initialize = hsInit
//verif:filestub (*hop.computer/hop/cyclist.Cyclist).Ratchet = hsRatchet
//verif:filestub (*hop.computer/hop/keys.X25519KeyPair).DH = hsDH
//verif:filestub (*hop.computer/hop/keys.X25519KeyPair).Generate = hsGenerate
//verif:filestub hop.computer/hop/keys.ParseKEMPublicKeyFromBytes = hsParseKEMPublicKey
//verif:filestub (*hop.computer/hop/keys.KEMKeyPair).Decapsulate = hsDecapsulate
//verif:filestub hop.computer/hop/keys.Encapsulate = hsEncapsulate
//verif:filestub hop.computer/hop/keys.GenerateKEMKeyPair = hsGenerateKEMKeyPair
//verif:filestub hop.computer/hop/keys.GenerateKEMKeyPairFromSeed = hsGenerateKEMKeyPairFromSeed
//verif:filestub (*hop.computer/hop/transport.HandshakeState).certificateParserAndVerifier = hsCertVerifier
//verif:filestub hop.computer/hop/kravatte.NewSANSE = sessNewSANSE
//verif:filestub golang.org/x/crypto/sha3.New256 = hsNewSHA3

// ClientAck: the server rebuilds its state from the cookie. It accepts only if
// the cookie opens under the CURRENT cookie key with associated data derived
// from THIS datagram's KEM key and source address, every field is bound into
// the replayed transcript, and the MAC matches.
//
//verif:prop C19
//verif:replay none
//verif:bounds ClientAck datagram of symbolic length 1150..1190 inside a larger buffer with stale bytes, all bytes symbolic; source address symbolic IPv4 or IPv6 (picked length) and port; cookie key symbolic; AEAD open nondeterministic and recorded; SHA3 recorded
//verif:cover accepted;rejected-cookie;rejected-mac
//verif:timeout 600
func VH_C19_clientack_accepted_only_with_cookie_for_same_address_and_key() {
	hsReset()
	hsHashLog = nil
	s, _ := hsServer(false)
	ipLen := verifPick("ip-len", 4, 16)
	addr := &net.UDPAddr{IP: net.IP(verifBytes("source-ip", ipLen)), Port: int(verifU16("source-port"))}
	msg, n := hsDatagram("clientack", 1150, 1190)
	consumed, hs, err := s.readPQClientAck(msg, addr)
	if err != nil {
		verifAssert(hs == nil, "C19: ClientAck: no state is returned on rejection")
		if len(sessLog.opens) == 1 && !sessLog.opens[0].ok {
			verifCover("rejected-cookie")
		} else if len(sessLog.opens) == 1 {
			verifCover("rejected-mac")
		}
		return
	}
	verifCover("accepted")
	length := HeaderLen + DHLen + KemKeyLen + PQCookieLen + SNILen + MacLen
	verifAssert(verifAnd(consumed == length, consumed <= n), "C02: ClientAck: exactly the message, inside the datagram, is consumed")
	ekemOff, cookieOff := HeaderLen+DHLen, HeaderLen+DHLen+KemKeyLen
	// cookie binding
	verifAssert(verifAnd(len(sessLog.opens) == 1, sessLog.opens[0].ok), "C19: ClientAck: accepted only after the cookie opened")
	if len(sessLog.opens) != 1 || len(hsHashLog) != 1 {
		verifAssert(false, "C19: ClientAck: exactly one cookie open and one associated-data hash")
		return
	}
	o := sessLog.opens[0]
	verifAssert(o.key == s.cookieKey, "C19: ClientAck: the cookie is opened under the server's current cookie key")
	verifAssert(verifAnd(len(o.ad) == 32, hsEq(o.ad, hsHashLog[0].out, 32)), "C19: ClientAck: the associated data is the hash computed for this datagram")
	verifAssert(o.ctLen == PQCookieLen, "C19: ClientAck: the whole cookie field is opened")
	verifAssertBytesEq(o.ct, msg[cookieOff:cookieOff+PQCookieLen], "C19: ClientAck: the opened cookie is the one in the datagram")
	hin := hsHashLog[0].in
	verifAssert(len(hin) == KemKeyLen+ipLen+2, "C19: ClientAck: cookie associated data covers KEM key, source IP and source port")
	if len(hin) == KemKeyLen+ipLen+2 {
		verifAssertBytesEq(hin[:KemKeyLen], msg[ekemOff:ekemOff+KemKeyLen], "C19: ClientAck: cookie is bound to the client ephemeral key presented in this datagram")
		verifAssertBytesEq(hin[KemKeyLen:KemKeyLen+ipLen], addr.IP, "C19: ClientAck: cookie is bound to the source IP of this datagram")
		verifAssert(verifAnd(hin[KemKeyLen+ipLen] == byte(addr.Port>>8), hin[KemKeyLen+ipLen+1] == byte(addr.Port)), "C19: ClientAck: cookie is bound to the source port of this datagram")
	}
	// transcript: ... I A(proto) A(ch-hdr) A(ekem) S A(sh-hdr) A(k) A(cookie) S S(hskey) I(key) | A(hdr) A(eph) A(ekem) A(cookie) D(sni) S(mac)
	k := len(hsLog)
	verifAssert(k == 17, "C02: ClientAck: transcript has the expected seventeen operations")
	if k != 17 {
		return
	}
	verifAssert(verifAnd(hsLog[0].kind == 'I', verifAnd(hsLog[1].kind == 'A', hsLog[2].kind == 'A')), "C02: ClientAck: replay starts from the empty duplex with protocol name and ClientHello header")
	hsCheckBound(hsLog[3], 'A', msg, ekemOff, KemKeyLen, "C02: ClientAck: replay absorbs the presented KEM key")
	verifAssert(verifAnd(hsLog[6].kind == 'A', hsEq(hsLog[6].in, o.pt, PQSharedSecretLen)), "C02: ClientAck: replay absorbs the secret recovered from the cookie")
	hsCheckBound(hsLog[7], 'A', msg, cookieOff, PQCookieLen, "C02: ClientAck: replay absorbs the cookie")
	verifAssert(verifAnd(hsLog[9].kind == 'S', verifAnd(hsLog[10].kind == 'I', hsEq(hsLog[10].in, hsLog[9].out, KeyLen))), "C02: ClientAck: the duplex is re-keyed from the squeezed handshake key")
	hsCheckBound(hsLog[11], 'A', msg, 0, HeaderLen, "C02: ClientAck: header is absorbed")
	hsCheckBound(hsLog[12], 'A', msg, HeaderLen, DHLen, "C02: ClientAck: client DH ephemeral is absorbed")
	hsCheckBound(hsLog[13], 'A', msg, ekemOff, KemKeyLen, "C02: ClientAck: client KEM key is absorbed")
	hsCheckBound(hsLog[14], 'A', msg, cookieOff, PQCookieLen, "C02: ClientAck: cookie is absorbed")
	hsCheckBound(hsLog[15], 'D', msg, cookieOff+PQCookieLen, SNILen, "C02: ClientAck: the encrypted server name is bound into the transcript")
	verifAssert(verifAnd(hsLog[16].kind == 'S', hsEq(hsLog[16].out, msg[cookieOff+PQCookieLen+SNILen:], MacLen)), "C02: ClientAck: the MAC equals the expected squeeze")
	verifAssert(hsEq(hs.dh.remoteEphemeral[:], msg[HeaderLen:], DHLen), "C02: ClientAck: the client ephemeral kept is the one received")
	// C01: DH(ee) and DH(se) only prove anything if the server's ephemeral
	// PRIVATE key is fresh randomness - never something derived from the
	// cookie, the KEM secret or the datagram, all of which the client knows.
	fresh := true
	for i := 0; i < DHLen; i++ {
		fresh = verifAnd(fresh, verifMentions(uint64(hs.dh.ephemeral.Private[i]), "dh-private"))
	}
	verifAssert(fresh, "C01: the server's ephemeral DH private key is freshly generated for this handshake (not restored from the cookie or anything else the client knows)")
}

func c01PublicFromPrivate(x *keys.X25519KeyPair) { copy(x.Public[:], verifFreshBytes("dh-public-derived", 32)) }

//verif:prop C01
//verif:replay none
//verif:stub (*hop.computer/hop/keys.X25519KeyPair).PublicFromPrivate = c01PublicFromPrivate
//verif:bounds as VH_C19_clientack_accepted_only_with_cookie_for_same_address_and_key
//verif:cover accepted;rejected-cookie;rejected-mac
func VH_C01_server_ephemeral_key_is_fresh_for_every_clientack() {
	VH_C19_clientack_accepted_only_with_cookie_for_same_address_and_key()
}

func hsServerCert(tag string, withKEM bool) *Certificate {
	c := &Certificate{RawLeaf: verifBytes(tag+"-rawleaf", 8), Exchanger: &hsExch{}, HostNames: []string{"host.example"}}
	if withKEM {
		c.KEMKeyPair = &keys.KEMKeyPair{Public: &hsKemPub{b: verifFreshBytes(tag+"-kem-public", KemKeyLen)}}
	}
	return c
}

// ClientHello: whatever arrives, the server keeps no per-client state and
// sends at most one datagram, to the source.
//
//verif:prop C19
//verif:replay none
//verif:bounds ClientHello-typed datagram of symbolic length 0..900, all bytes symbolic, on a discoverable server holding one pending handshake and one session
//verif:cover answered;ignored
func VH_C19_clienthello_leaves_no_state() {
	hsReset()
	s, u := hsServer(false)
	other := sessAddr4(10, 9, 9, 9, 999)
	s.handshakes[AddressHashKey(other)] = hsNewState()
	ss := sessState(1)
	s.sessions[ss.sessionID] = ss
	n := verifInt("datagram-len")
	verifAssume(n >= 0 && n <= 900)
	u.in = verifBytes("datagram", 900)
	u.inLen = n
	u.inAddr = sessAddr4(10, 0, 0, 1, 4000)
	verifAssume(n < 1 || u.in[0] == byte(MessageTypeClientHello))
	_ = s.readPacket(make([]byte, 65535), make([]byte, 65535))
	verifAssert(verifAnd(len(s.handshakes) == 1, len(s.sessions) == 1), "C19: a ClientHello allocates no per-client state")
	verifAssert(u.writes <= 1, "C19: at most one datagram answers a ClientHello")
	if u.writes == 1 {
		verifCover("answered")
		verifAssert(u.lastAddr == u.inAddr, "C19: the ServerHello goes to the source of the ClientHello")
		verifAssert(len(u.lastPkt) == HeaderLen+KemCtLen+PQCookieLen+MacLen, "C19: the answer is one ServerHello")
	} else {
		verifCover("ignored")
	}
}

// Hidden mode: the server emits a datagram only for a hidden-mode request that
// passed tag, certificate verification, a fresh timestamp and the final MAC
// under one of ITS OWN KEM keys. Valid discoverable-mode messages get nothing.
//
//verif:prop C19
//verif:replay none
//verif:bounds hidden server with 1..2 certificates (each with or without KEM key); datagram of symbolic length 0..1700 with the five handshake type bytes / session types picked, certificate-length field from {0,12}, everything else symbolic; clock symbolic
//verif:cover silent;answered
//verif:timeout 900
func VH_C19_hidden_server_is_silent_unless_valid_request() {
	hsReset()
	s, u := hsServer(true)
	nc := verifPick("certificates", 1, 2)
	var list []*Certificate
	for i := 0; i < nc; i++ {
		list = append(list, hsServerCert("cert", verifBool("cert-has-kem")))
	}
	s.config.GetCertList = func() ([]*Certificate, error) { return list, nil }
	s.config.GetCertificate = func(ClientHandshakeInfo) (*Certificate, error) { return list[0], nil }
	s.config.HandshakeTimeout = time.Second
	n := verifInt("datagram-len")
	verifAssume(n >= 0 && n <= 1700)
	u.in = verifBytes("datagram", 1700)
	u.inLen = n
	u.inAddr = sessAddr4(10, 0, 0, 1, 4000)
	u.in[0] = byte(verifPick("type", int(MessageTypeClientHello), int(MessageTypeClientAck), int(MessageTypeClientAuth), int(MessageTypeClientRequestHidden), int(MessageTypeTransport), 0x33))
	u.in[2] = 0
	u.in[3] = byte(verifPick("certs-len", 0, 12))
	hsLog = nil
	_ = s.readPacket(make([]byte, 65535), make([]byte, 65535))
	if u.writes == 0 {
		verifCover("silent")
		return
	}
	verifCover("answered")
	verifAssert(u.in[0] == byte(MessageTypeClientRequestHidden), "C19: a hidden server answers nothing but a hidden-mode request")
	L := int(u.in[3])
	length := HeaderLen + KemCtLen + L + MacLen + KemKeyLen + TimestampLen + MacLen
	verifAssert(n == length, "C19/C02: the hidden request is exactly one well-formed message")
	verifAssert(verifAnd(hsVerify.calls == 1, hsVerify.ok), "C01: the hidden request's client certificate satisfied the verifier")
	// find the decapsulation, the tag squeeze, the timestamp decrypt and the final MAC squeeze of the accepted attempt
	var dec, tag, ts, mac = -1, -1, -1, -1
	for i, e := range hsLog {
		switch {
		case e.kind == 'C':
			dec, tag, ts, mac = i, -1, -1, -1
		case e.kind == 'S' && dec >= 0 && tag < 0 && i > dec+2:
			tag = i
		case e.kind == 'D' && tag >= 0 && ts < 0 && len(e.in) == TimestampLen:
			ts = i
		case e.kind == 'S' && ts >= 0 && mac < 0:
			mac = i
		}
	}
	verifAssert(verifAnd(dec >= 0, verifAnd(tag >= 0, verifAnd(ts >= 0, mac >= 0))), "C19: an answered request went through decapsulation, tag, timestamp and final MAC")
	if dec < 0 || tag < 0 || ts < 0 || mac < 0 {
		return
	}
	ctOff := HeaderLen + KemKeyLen
	hsCheckBound(hsLog[dec], 'C', u.in, ctOff, KemCtLen, "C19: the request's KEM ciphertext is decapsulated with the server's own key")
	tagOff := ctOff + KemCtLen + L
	verifAssert(hsEq(hsLog[tag].out, u.in[tagOff:], MacLen), "C19: the request's tag equals the expected squeeze")
	hsCheckBound(hsLog[ts], 'D', u.in, tagOff+MacLen, TimestampLen, "C19: the request's timestamp field is what gets decrypted")
	verifAssert(hsEq(hsLog[mac].out, u.in[tagOff+MacLen+TimestampLen:], MacLen), "C19: the request's final MAC equals the expected squeeze")
}

// The verification policy itself: parse results x policy -> verdict.
//
//verif:prop C01
//verif:replay none
//verif:nostub (*hop.computer/hop/transport.HandshakeState).certificateParserAndVerifier
//verif:stub (*hop.computer/hop/certs.Certificate).ReadFrom = c01CertReadFrom
//verif:stub (hop.computer/hop/certs.Store).VerifyLeaf = c01StoreVerify
//verif:stub (*hop.computer/hop/authkeys.SyncAuthKeySet).VerifyLeaf = c01AuthKeysVerify
//verif:stub (*hop.computer/hop/certs.Store).AddCertificate = c04AddCert
//verif:bounds every combination of: policy absent / skip / store / authorized keys / both, additional callback absent/present, leaf and intermediate parse ok / error / trailing bytes, intermediate absent, each verifier accepting or refusing, callback accepting or refusing
//verif:cover accepted;refused
func VH_C01_policy_verdict_is_exactly_the_configured_policy() {
	c01p.parseFail, c01p.extra = verifPick("parse", 0, 1, 2), verifPick("parse-int", 0, 1, 2)
	c01p.storeOK, c01p.akOK = verifBool("store-accepts"), verifBool("authkeys-accept")
	c01p.reads, c01p.storeCalls, c01p.akCalls = 0, 0, 0
	cbOK := verifBool("callback-accepts")
	hs := &HandshakeState{}
	hasPolicy := verifBool("policy-present")
	skip, akAllowed, hasCB := verifBool("skip-verify"), verifBool("authkeys-allowed"), verifBool("callback-present")
	wantName := certs.RawStringName("srv")
	if hasPolicy {
		hs.certVerify = &VerifyConfig{InsecureSkipVerify: skip, AuthKeysAllowed: akAllowed, Name: wantName, CurrentTime: time.Unix(1700000000, 0)}
		if verifBool("policy-has-no-fixed-clock") {
			hs.certVerify.CurrentTime = time.Time{} // the normal case for a long-lived server: judge at handshake time
		}
		c01p.cfgTime = hs.certVerify.CurrentTime
		hs.certVerify.Store = certs.Store{}
		hs.certVerify.AuthKeys = authkeys.NewSyncAuthKeySet()
		if hasCB {
			hs.certVerify.AddVerifyCallback = func(*certs.Certificate) error {
				if cbOK {
					return nil
				}
				return errors.New("callback refuses")
			}
		}
	}
	hasInt := verifBool("intermediate-present")
	rawLeaf := make([]byte, 10)
	var rawInt []byte
	if hasInt {
		rawInt = make([]byte, 10)
	}
	c01p.addCalls = 0
	_, _, err := hs.certificateParserAndVerifier(rawLeaf, rawInt)
	if hasPolicy {
		// the policy object is SHARED by every handshake of a server: judging
		// one certificate must not change it (no clock reading frozen into it,
		// no presented certificate cached as a trust anchor)
		verifAssert(hs.certVerify.CurrentTime.Equal(c01p.cfgTime) && hs.certVerify.CurrentTime.IsZero() == c01p.cfgTime.IsZero(), "C04: verifying a certificate leaves the shared policy's clock setting as configured")
		verifAssert(c01p.addCalls == 0, "C04: verifying a certificate adds nothing to the shared trust store")
	}
	parseOK := c01p.parseFail == 0 && (!hasInt || c01p.extra == 0)
	policyOK := !hasPolicy || skip || (akAllowed && c01p.akOK) || c01p.storeOK
	cbPass := !hasPolicy || !hasCB || cbOK
	verifAssert((err == nil) == (parseOK && policyOK && cbPass), "C01: certificates are accepted iff they parse exactly, the configured policy (skip / authorized keys / CA store) accepts the leaf, and the additional callback (if any) accepts it")
	if err == nil {
		verifCover("accepted")
		if hasPolicy && !skip {
			verifAssert(c01p.storeCalls+c01p.akCalls >= 1, "C01: a non-skip policy consulted a verifier")
			verifAssert(verifAnd(c01p.optsNameOK, c01p.optsTimeOK), "C01: the configured name and time are what the verifier checks against")
			verifAssert(c01p.optsInt == hasInt, "C01: the presented intermediate is handed to the verifier iff one was presented")
		}
	} else {
		verifCover("refused")
	}
}

var c01p struct {
	parseFail, extra             int
	storeOK, akOK                bool
	reads, storeCalls, akCalls   int
	optsNameOK, optsTimeOK       bool
	optsInt                      bool
	cfgTime                      time.Time
	addCalls                     int
}

func c04AddCert(st *certs.Store, c *certs.Certificate) { c01p.addCalls++ }

func c01CertReadFrom(c *certs.Certificate, r io.Reader) (int64, error) {
	c01p.reads++
	mode := c01p.parseFail
	if c01p.reads == 2 {
		mode = c01p.extra
	}
	switch mode {
	case 1:
		return 0, errors.New("parse error")
	case 2:
		return 7, nil // fewer bytes than presented: trailing garbage
	}
	return 10, nil
}

func c01Opts(o certs.VerifyOptions) {
	c01p.optsNameOK = string(o.Name.Label) == "srv" && o.Name.Type == certs.TypeRaw
	c01p.optsTimeOK = o.CurrentTime.Equal(c01p.cfgTime) && o.CurrentTime.IsZero() == c01p.cfgTime.IsZero()
	c01p.optsInt = o.PresentedIntermediate != nil
}

func c01StoreVerify(s certs.Store, leaf *certs.Certificate, o certs.VerifyOptions) error {
	c01p.storeCalls++
	c01Opts(o)
	if c01p.storeOK {
		return nil
	}
	return errors.New("store refuses")
}

func c01AuthKeysVerify(s *authkeys.SyncAuthKeySet, leaf *certs.Certificate, o certs.VerifyOptions) error {
	c01p.akCalls++
	c01Opts(o)
	if c01p.akOK {
		return nil
	}
	return errors.New("authkeys refuse")
}

var hsClock int64

func hsNow() time.Time { return time.Unix(hsClock, 0) }

// Hidden request freshness: an answered request carried a timestamp within the
// five-second window of the server's clock (so late replays get nothing).
//
//verif:prop C19
//verif:replay none
//verif:stub time.Now = hsNow
//verif:bounds hidden server with one certificate; well-formed-length hidden request with all bytes symbolic; clock symbolic (32-bit seconds); decrypted timestamp fresh 64-bit
//verif:cover answered;silent
func VH_C19_hidden_request_must_be_fresh() {
	hsReset()
	s, u := hsServer(true)
	list := []*Certificate{hsServerCert("cert", true)}
	s.config.GetCertList = func() ([]*Certificate, error) { return list, nil }
	s.config.GetCertificate = func(ClientHandshakeInfo) (*Certificate, error) { return list[0], nil }
	s.config.HandshakeTimeout = time.Second
	hsClock = int64(verifU32("server-clock"))
	L := 12
	n := HeaderLen + KemCtLen + L + MacLen + KemKeyLen + TimestampLen + MacLen
	u.in = verifBytes("datagram", n)
	u.inLen = n
	u.inAddr = sessAddr4(10, 0, 0, 1, 4000)
	u.in[0], u.in[2], u.in[3] = byte(MessageTypeClientRequestHidden), 0, byte(L)
	hsLog = nil
	_ = s.readPacket(make([]byte, 65535), make([]byte, 65535))
	if u.writes == 0 {
		verifCover("silent")
		return
	}
	verifCover("answered")
	var ts []byte
	for _, e := range hsLog {
		if e.kind == 'D' && len(e.in) == TimestampLen {
			ts = e.out
		}
	}
	verifAssert(ts != nil, "C19: an answered hidden request had its timestamp decrypted")
	if ts == nil {
		return
	}
	t := uint64(ts[0])<<56 | uint64(ts[1])<<48 | uint64(ts[2])<<40 | uint64(ts[3])<<32 | uint64(ts[4])<<24 | uint64(ts[5])<<16 | uint64(ts[6])<<8 | uint64(ts[7])
	now := uint64(hsClock)
	verifAssert(verifAnd(t <= now, now-t <= c19FreshnessSeconds), "C19: a hidden request is answered only if its authenticated timestamp lies within the freshness window (not stale, not from the future)")
}

// C01 (publication and the CONFIGURED policy): the server offers a connection
// to the application only for a client whose certificate was judged by the
// server's configured client-verification policy - in both modes.
//
//verif:prop C01
//verif:replay none
//verif:bounds one handshake-completing datagram (ClientAuth on a pending discoverable handshake, or a hidden request) with symbolic content; server configured with a client-verification policy object; certificate verdict nondeterministic
//verif:cover published-discoverable;published-hidden;not-published
func VH_C01_server_publishes_only_policy_checked_clients() {
	hsReset()
	hidden := verifBool("hidden-mode")
	s, u := hsServer(hidden)
	policy := &VerifyConfig{}
	s.config.ClientVerify = policy
	list := []*Certificate{hsServerCert("cert", true)}
	s.config.GetCertList = func() ([]*Certificate, error) { return list, nil }
	s.config.GetCertificate = func(ClientHandshakeInfo) (*Certificate, error) { return list[0], nil }
	s.config.HandshakeTimeout = time.Second
	u.inAddr = sessAddr4(10, 0, 0, 1, 4000)
	var pending *HandshakeState
	if hidden {
		L := 12
		n := HeaderLen + KemCtLen + L + MacLen + KemKeyLen + TimestampLen + MacLen
		u.in, u.inLen = verifBytes("datagram", n), n
		u.in[0], u.in[2], u.in[3] = byte(MessageTypeClientRequestHidden), 0, byte(L)
	} else {
		// discoverable: the state a ClientAck leaves behind
		pending = hsNewState()
		pending.certVerify = s.config.ClientVerify
		s.setHandshakeState(u.inAddr, pending)
		L := 12
		n := HeaderLen + SessionIDLen + L + 2*MacLen
		u.in, u.inLen = verifBytes("datagram", n), n
		u.in[0], u.in[1], u.in[2], u.in[3] = byte(MessageTypeClientAuth), 0, 0, byte(L)
	}
	hsVerify.calls = 0
	hsVerifyPolicy = nil
	_ = s.readPacket(make([]byte, 65535), make([]byte, 65535))
	if len(s.pendingConnections) == 0 {
		verifCover("not-published")
		return
	}
	if hidden {
		verifCover("published-hidden")
	} else {
		verifCover("published-discoverable")
	}
	verifAssert(verifAnd(hsVerify.calls == 1, hsVerify.ok), "C01: a connection is offered to the application only after the client's certificate was verified successfully")
	verifAssert(hsVerifyPolicy == policy, "C01: the client's certificate is judged by the server's CONFIGURED client-verification policy (in hidden mode too)")
}

// ---- the same structural obligations, registered under C02 (any in-flight
// change aborts) and C10 (no crash on arbitrary datagrams) ----

//verif:prop C02
//verif:replay none
//verif:bounds as VH_C01_client_reads_serverauth
//verif:cover accepted;rejected
func VH_C02_serverauth_every_field_bound_and_mac_checked() { VH_C01_client_reads_serverauth() }

//verif:prop C02
//verif:replay none
//verif:bounds as VH_C01_server_reads_clientauth
//verif:cover accepted;rejected
func VH_C02_clientauth_every_field_bound_and_mac_checked() { VH_C01_server_reads_clientauth() }

//verif:prop C02
//verif:replay none
//verif:bounds as VH_C19_clientack_accepted_only_with_cookie_for_same_address_and_key
//verif:cover accepted;rejected-cookie;rejected-mac
func VH_C02_clientack_every_field_bound_and_mac_checked() {
	VH_C19_clientack_accepted_only_with_cookie_for_same_address_and_key()
}

//verif:prop C02
//verif:replay none
//verif:bounds as VH_C01_client_reads_hidden_serverresponse
//verif:cover accepted;rejected
func VH_C02_hidden_serverresponse_every_field_bound_and_mac_checked() {
	VH_C01_client_reads_hidden_serverresponse()
}

//verif:prop C02
//verif:replay none
//verif:bounds as VH_C19_hidden_server_is_silent_unless_valid_request
//verif:cover silent;answered
//verif:timeout 900
func VH_C02_hidden_request_every_field_bound_and_mac_checked() {
	VH_C19_hidden_server_is_silent_unless_valid_request()
}

// Session keys: both directions are squeezed from the final transcript under
// different labels.
//
//verif:prop C02
//verif:replay none
//verif:bounds deriveFinalKeys on an arbitrary handshake state
func VH_C02_final_keys_are_direction_separated() {
	hsReset()
	hs := hsNewState()
	var c2s, s2c [KeyLen]byte
	_ = hs.deriveFinalKeys(&c2s, &s2c)
	// R A("client_to_server_key") S R A("server_to_client_key") S
	verifAssert(len(hsLog) == 6, "C02: final keys: six duplex operations")
	if len(hsLog) != 6 {
		return
	}
	verifAssert(verifAnd(hsLog[0].kind == 'R', hsLog[3].kind == 'R'), "C02: final keys: the duplex is ratcheted before each key")
	verifAssert(verifAnd(hsLog[1].kind == 'A', string(hsLog[1].in) == "client_to_server_key"), "C02: final keys: client-to-server key is derived under its own label")
	verifAssert(verifAnd(hsLog[4].kind == 'A', string(hsLog[4].in) == "server_to_client_key"), "C02: final keys: server-to-client key is derived under a different label")
	verifAssert(verifAnd(hsEq(c2s[:], hsLog[2].out, KeyLen), hsEq(s2c[:], hsLog[5].out, KeyLen)), "C02: final keys: each key is the squeeze that follows its label")
}

// C10: ANY datagram into the server's packet reader, in both modes, with one
// or two certificates, a pending handshake and an established session: no
// panic, and the other peers' state is left alone.
//
//verif:prop C10
//verif:replay none
//verif:stub time.Now = hsNow
//verif:stub crypto/rand.Read = hsRandRead
//verif:bounds datagram of symbolic length 0..1700 inside the 65535-byte receive buffer, type byte fully symbolic, certificate-length field from {0,12,255}, all other bytes symbolic; discoverable or hidden server with 1..2 certificates (with/without KEM key); one pending handshake (another address) and one session; all crypto outputs fresh (an unauthenticated sender may be lucky)
//verif:cover returned
//verif:timeout 900
func VH_C10_server_readpacket_any_datagram() { c10ReadPacket(1700) }

func c10ReadPacket(maxLen int) {
	hsReset()
	hsAvoidSIDs = nil
	hidden := verifBool("hidden-mode")
	s, u := hsServer(hidden)
	nc := verifPick("certificates", 1, 2)
	var list []*Certificate
	for i := 0; i < nc; i++ {
		list = append(list, hsServerCert("cert", verifBool("cert-has-kem")))
	}
	s.config.GetCertList = func() ([]*Certificate, error) { return list, nil }
	s.config.GetCertificate = func(ClientHandshakeInfo) (*Certificate, error) { return list[0], nil }
	s.config.HandshakeTimeout = time.Second
	// another client is in the middle of its handshake: its state and its
	// half-open session are created by the server's own code
	other := sessAddr4(10, 9, 9, 9, 999)
	otherHS := hsNewState()
	s.setHandshakeState(other, otherHS)
	half := s.sessions[otherHS.sessionID]
	ss := sessState(1)
	ss.handleState = established
	ss.readKey, ss.writeKey = &ss.clientToServerKey, &ss.serverToClientKey
	verifAssume(!hsEq(ss.sessionID[:], otherHS.sessionID[:], 4))
	s.sessions[ss.sessionID] = ss
	hsAvoidSID = ss.sessionID
	hsAvoidSIDs = [][4]byte{otherHS.sessionID}
	n := verifInt("datagram-len")
	verifAssume(n >= 0 && n <= maxLen)
	u.in = verifBytes("datagram", maxLen)
	u.inLen = n
	u.inAddr = sessAddr4(10, 0, 0, 1, 4000)
	u.in[2] = 0
	u.in[3] = byte(verifPick("certs-len", 0, 12, 255))
	oldWin, oldState, oldAddr := ss.window, ss.handleState, ss.remoteAddr
	_ = s.readPacket(make([]byte, 65535), make([]byte, 65535))
	verifCover("returned")
	verifAssert(s.handshakes[AddressHashKey(other)] == otherHS, "C10: a datagram from one address never removes or replaces another address's pending handshake")
	verifAssert(s.sessions[otherHS.sessionID] == half && half.handle == nil && half.handleState == finishingHandshake, "C10: a half-open session of another client is not completed or replaced by anyone else's datagram")
	opened := len(sessLog.opens) > 0 && sessLog.opens[len(sessLog.opens)-1].ok
	if !opened {
		verifAssert(verifAnd(ss.window == oldWin, verifAnd(ss.handleState == oldState, ss.remoteAddr == oldAddr)), "C10: an established session is untouched by a datagram that did not authenticate for it")
	}
}

// the freshness window of a hidden request, from the protocol description (a
// literal, so that the repository's constant is checked against it)
const c19FreshnessSeconds = 5

// The cookie key exists from the moment the server does, HOWEVER its
// certificates are configured: an all-zero key until the first rotation lets
// anyone mint cookies for any address without ever sending a ClientHello.
//
//verif:prop C19
//verif:replay none
//verif:stub crypto/rand.Read = hsRandRead
//verif:bounds NewServer's initialisation with the certificate given directly (KeyPair + Certificate) or through GetCertificate / GetCertList callbacks (the hopd / ACME configuration); randomness = fresh symbols
//verif:cover direct;callbacks
func VH_C19_cookie_key_is_random_from_the_start_in_every_configuration() {
	s := &Server{}
	if verifBool("certificates-through-callbacks") {
		c := hsServerCert("cert", true)
		s.config.GetCertificate = func(ClientHandshakeInfo) (*Certificate, error) { return c, nil }
		s.config.GetCertList = func() ([]*Certificate, error) { return []*Certificate{c}, nil }
		verifCover("callbacks")
	} else {
		s.config.KeyPair = &keys.X25519KeyPair{}
		s.config.Certificate = &certs.Certificate{Type: certs.Leaf}
		verifCover("direct")
	}
	err := s.init()
	verifAssert(err == nil, "C19: the server initialises")
	if err != nil {
		return
	}
	all := true
	for i := 0; i < KeyLen; i++ {
		all = verifAnd(all, verifMentions(uint64(s.cookieKey[i]), "rand"))
	}
	verifAssert(all, "C19: every byte of the cookie key comes from the random source before the server handles its first datagram")
}

// C06: the principal's approval of the FIRST intent runs as the additional
// verification callback of its handshake with the target. Whatever the
// certificate policy of that connection (skip included), a refusing callback
// refuses the connection - the same obligation as C01's, registered here.
//
//verif:prop C06
//verif:replay none
//verif:nostub (*hop.computer/hop/transport.HandshakeState).certificateParserAndVerifier
//verif:stub (*hop.computer/hop/certs.Certificate).ReadFrom = c01CertReadFrom
//verif:stub (hop.computer/hop/certs.Store).VerifyLeaf = c01StoreVerify
//verif:stub (*hop.computer/hop/authkeys.SyncAuthKeySet).VerifyLeaf = c01AuthKeysVerify
//verif:stub (*hop.computer/hop/certs.Store).AddCertificate = c04AddCert
//verif:bounds as VH_C01_policy_verdict_is_exactly_the_configured_policy
//verif:cover accepted;refused
func VH_C06_approval_callback_is_consulted_under_every_certificate_policy() {
	VH_C01_policy_verdict_is_exactly_the_configured_policy()
}

// The server's receive loop reuses one 64 KiB buffer: a ClientAuth datagram
// that is SHORTER than the message it announces must never be completed from
// whatever an earlier datagram left behind in that buffer.
//
//verif:prop C02
//verif:replay none
//verif:bounds pending discoverable handshake; ClientAuth datagram announcing 12 certificate bytes, delivered whole or cut short by 1, 20 or 32 bytes, into a receive buffer whose other 65535 bytes are arbitrary (stale) and symbolic; duplex outputs fresh
//verif:cover whole-accepted;short-rejected;whole-rejected
//verif:timeout 600
func VH_C02_server_never_completes_a_short_clientauth_from_stale_buffer_bytes() {
	hsReset()
	s, u := hsServer(false)
	list := []*Certificate{hsServerCert("cert", true)}
	s.config.GetCertList = func() ([]*Certificate, error) { return list, nil }
	s.config.GetCertificate = func(ClientHandshakeInfo) (*Certificate, error) { return list[0], nil }
	s.config.HandshakeTimeout = time.Second
	u.inAddr = sessAddr4(10, 0, 0, 1, 4000)
	pending := hsNewState()
	s.setHandshakeState(u.inAddr, pending)
	L := 12
	full := HeaderLen + SessionIDLen + L + 2*MacLen
	cut := verifPick("cut-short-by", 0, 1, 20, 32)
	n := full - cut
	u.in, u.inLen = verifBytes("datagram", n), n
	u.in[0], u.in[1], u.in[2], u.in[3] = byte(MessageTypeClientAuth), 0, 0, byte(L)
	raw := verifBytes("receive-buffer-as-left-by-earlier-datagrams", 65535)
	_ = s.readPacket(raw, make([]byte, 65535))
	if len(s.pendingConnections) > 0 {
		verifCover("whole-accepted")
		verifAssert(cut == 0, "C02: the server completes a handshake only from a ClientAuth datagram that carries the WHOLE message (truncated datagrams are never completed from stale receive-buffer bytes)")
		return
	}
	if cut > 0 {
		verifCover("short-rejected")
	} else {
		verifCover("whole-rejected")
	}
}

//verif:prop C10
//verif:replay none
//verif:tier thorough
//verif:stub crypto/rand.Read = hsRandRead
//verif:bounds as VH_C10_server_readpacket_any_datagram with datagram length symbolic 0..65535 (the whole receive buffer)
//verif:cover returned
//verif:timeout 3000
func VH_C10_server_readpacket_any_datagram_up_to_64k() { c10ReadPacket(65535) }

// C04: the verification policy object of a server is shared by all of its
// handshakes; verifying one peer's certificates must leave it exactly as
// configured (clock setting, trust store).
//
//verif:prop C04
//verif:replay none
//verif:nostub (*hop.computer/hop/transport.HandshakeState).certificateParserAndVerifier
//verif:stub (*hop.computer/hop/certs.Certificate).ReadFrom = c01CertReadFrom
//verif:stub (hop.computer/hop/certs.Store).VerifyLeaf = c01StoreVerify
//verif:stub (*hop.computer/hop/authkeys.SyncAuthKeySet).VerifyLeaf = c01AuthKeysVerify
//verif:stub (*hop.computer/hop/certs.Store).AddCertificate = c04AddCert
//verif:bounds as VH_C01_policy_verdict_is_exactly_the_configured_policy, with the policy's clock fixed or left zero
//verif:cover accepted;refused
func VH_C04_verifying_one_peer_leaves_the_shared_policy_as_configured() {
	VH_C01_policy_verdict_is_exactly_the_configured_policy()
}
