package transport

import "time"

// Sessions the SERVER'S OWN CODE creates while a handshake is in flight
// (C15 / C03 / C10): they hold no keys yet, so nothing a third party sends can
// authenticate for them, move their peer address or advance their window; and
// the handshake-timeout callback removes only what timed out.

//verif:filestub (*hop.computer/hop/cyclist.Cyclist).Absorb = hsAbsorb
//verif:filestub (*hop.computer/hop/cyclist.Cyclist).Squeeze = hsSqueeze
//verif:filestub (*hop.computer/hop/cyclist.Cyclist).SqueezeKey = hsSqueezeKey
//verif:filestub (*hop.computer/hop/cyclist.Cyclist).Decrypt = hsDecrypt
//verif:filestub (*hop.computer/hop/cyclist.Cyclist).Encrypt = hsEncrypt
//verif:filestub (*hop.computer/hop/cyclist.Cyclist).InitializeEmpty = hsInitEmpty
//verif:filestub (*hop.computer/hop/cyclist.Cyclist).Initialize = hsInit
//verif:filestub (*hop.computer/hop/cyclist.Cyclist).Ratchet = hsRatchet
//verif:filestub (*hop.computer/hop/keys.X25519KeyPair).DH = hsDH
//verif:filestub (*hop.computer/hop/keys.X25519KeyPair).Generate = hsGenerate
//verif:filestub hop.computer/hop/keys.ParseKEMPublicKeyFromBytes = hsParseKEMPublicKey
//verif:filestub (*hop.computer/hop/keys.KEMKeyPair).Decapsulate = hsDecapsulate
//verif:filestub hop.computer/hop/keys.Encapsulate = hsEncapsulate
//verif:filestub hop.computer/hop/keys.GenerateKEMKeyPair = hsGenerateKEMKeyPair
//verif:filestub hop.computer/hop/keys.GenerateKEMKeyPairFromSeed = hsGenerateKEMKeyPairFromSeed
//verif:filestub (*hop.computer/hop/transport.HandshakeState).certificateParserAndVerifier = hsCertVerifier
//verif:filestub hop.computer/hop/kravatte.NewSANSE = sessNewSANSE
//verif:filestub golang.org/x/crypto/sha3.New256 = hsNewSHA3

func c15HalfOpen(prop string) {
	hsReset()
	hsAvoidSIDs = nil
	s, _ := hsServer(false)
	s.config.HandshakeTimeout = time.Second
	peer := sessAddr4(10, 9, 9, 9, 999)
	hs := hsNewState()
	s.setHandshakeState(peer, hs)
	half := s.sessions[hs.sessionID]
	verifAssert(half != nil && half.handleState == finishingHandshake, prop+": the server tracks a half-open session while the handshake is in flight")
	if half == nil {
		return
	}
	oldWin := half.window
	n := verifInt("datagram-len")
	verifAssume(n >= 0 && n <= 200)
	msg := verifBytes("datagram", n)
	from := sessAddr("from")
	err := s.handleSessionMessage(from, msg)
	verifCover("returned")
	verifAssert(len(sessLog.opens) == 0, prop+": no datagram is even tried against a session whose keys are not established yet (an all-zero key must never authenticate anything)")
	verifAssert(half.remoteAddr == peer, prop+": a half-open session's peer address is not moved by session traffic from anyone")
	verifAssert(half.window == oldWin, prop+": a half-open session's replay window is not advanced by session traffic from anyone")
	verifAssert(half.handleState == finishingHandshake && half.handle == nil, prop+": a half-open session is not completed or closed by session traffic")
	_ = err
}

//verif:prop C15
//verif:replay none
//verif:stub crypto/rand.Read = hsRandRead
//verif:bounds half-open session created by the server's own setHandshakeState; one session-type datagram of symbolic length 0..200 and content (including the session's public id) from an arbitrary address; AEAD open nondeterministic and recorded
//verif:cover returned
func VH_C15_half_open_session_is_not_redirected_by_anyone() { c15HalfOpen("C15") }

//verif:prop C03
//verif:replay none
//verif:stub crypto/rand.Read = hsRandRead
//verif:bounds as VH_C15_half_open_session_is_not_redirected_by_anyone
//verif:cover returned
func VH_C03_half_open_session_accepts_no_session_traffic() { c15HalfOpen("C03") }

// The handshake-timeout callback: when it fires after its own handshake has
// completed, and a later handshake for the same address is pending, it may give
// up that pending handshake - but the ESTABLISHED session must stay.
//
//verif:prop C03
//verif:replay none
//verif:stub crypto/rand.Read = hsRandRead
//verif:bounds one completed handshake (session established through the server's own finishHandshake), then a second pending handshake for the same source address (a duplicated ClientAck), then the first handshake's timeout callback fires
//verif:cover fired
func VH_C03_handshake_timeout_never_removes_an_established_session() {
	hsReset()
	hsAvoidSIDs = nil
	s, _ := hsServer(false)
	s.config.HandshakeTimeout = time.Second
	peer := sessAddr4(10, 9, 9, 9, 999)
	hs1 := hsNewState()
	verifAssert(s.setHandshakeState(peer, hs1), "C03: first handshake tracked")
	verifAssert(s.finishHandshake(hs1, false) == nil, "C03: first handshake completes")
	est := s.sessions[hs1.sessionID]
	verifAssert(est != nil && est.handleState == established, "C03: the session is established")
	if est == nil {
		return
	}
	hsAvoidSIDs = [][4]byte{hs1.sessionID}
	hs2 := hsNewState()
	verifAssert(s.setHandshakeState(peer, hs2), "C03: a duplicate ClientAck opens a second handshake for the same address")
	ran := verifRunGo("time.AfterFunc") // the FIRST handshake's timer
	verifAssert(ran, "C03: the timeout callback was registered")
	verifCover("fired")
	verifAssert(s.sessions[hs1.sessionID] == est && est.handleState == established, "C03: an unauthenticated duplicate handshake datagram plus a timer never remove an established session")
}

// Session identifiers: a freshly drawn identifier that collides with a LIVE
// session is drawn again; a live session is never overwritten (its client and
// the server would silently stop sharing keys).

var c02Draws int
var c02Live [4]byte

func c02ScriptedRand(b []byte) (int, error) {
	c02Draws++
	if len(b) == 4 && c02Draws == 1 {
		copy(b, c02Live[:]) // the unlucky draw: the identifier of a live session
		return 4, nil
	}
	r := verifFreshBytes("rand", len(b)) // later draws: arbitrary, but not the same bad luck again
	copy(b, r)
	if len(b) == 4 {
		verifAssume(!hsEq(b, c02Live[:], 4))
	}
	return len(b), nil
}

//verif:prop C02
//verif:replay none
//verif:stub crypto/rand.Read = c02ScriptedRand
//verif:bounds server with one live established session (symbolic identifier); a new handshake whose first identifier draw collides with it, later draws arbitrary but different (100 collisions in a row, a 2^-3200 event, make the server panic by design)
//verif:cover created
func VH_C02_new_session_never_takes_over_a_live_sessions_identifier() {
	hsReset()
	s, _ := hsServer(false)
	s.config.HandshakeTimeout = time.Second
	live := sessState(1)
	live.handleState = established
	s.sessions[live.sessionID] = live
	c02Live, c02Draws = live.sessionID, 0
	hs := hsNewState()
	ok := s.setHandshakeState(sessAddr4(10, 9, 9, 9, 999), hs)
	verifAssert(ok, "C02: the new handshake is tracked")
	verifCover("created")
	verifAssert(s.sessions[live.sessionID] == live, "C02: a live session is never replaced by a new handshake whose random identifier collides with it")
	verifAssert(hs.sessionID != live.sessionID, "C02: the new handshake ends up with an identifier of its own")
	verifAssert(c02Draws >= 2, "C02: a colliding identifier is drawn again")
}

//verif:prop C10
//verif:replay none
//verif:stub crypto/rand.Read = hsRandRead
//verif:bounds as VH_C03_handshake_timeout_never_removes_an_established_session ("leaves established sessions working")
//verif:cover fired
func VH_C10_replayed_handshake_datagram_never_costs_an_established_session() {
	VH_C03_handshake_timeout_never_removes_an_established_session()
}

// C10 ("still completes a subsequent honest handshake"): a client that abandoned
// a handshake after its ClientAck (crash, refused certificate, lost ServerAuth)
// and tries again from the SAME address - e.g. every request of one delegate
// connection, which reaches the target through one proxied socket - must be able
// to finish the new handshake. So whenever the server answers a ClientAck with a
// ServerAuth, the handshake it TRACKS for that address must be the one that
// ServerAuth belongs to, and the session named in it must exist.
//
//verif:prop C10
//verif:replay none
//verif:stub crypto/rand.Read = hsRandRead
//verif:bounds discoverable server with one certificate; a pending (abandoned) handshake for the source address or none; one ClientAck datagram of exact length and symbolic content from that address whose cookie opens (nondeterministic AEAD); duplex / KEM / DH outputs fresh
//verif:cover answered-fresh;answered-after-abandoned-attempt;rejected
//verif:timeout 600
func VH_C10_a_serverauth_always_belongs_to_the_handshake_the_server_tracks() {
	hsReset()
	hsAvoidSIDs = nil
	s, u := hsServer(false)
	list := []*Certificate{hsServerCert("cert", true)}
	s.config.GetCertList = func() ([]*Certificate, error) { return list, nil }
	s.config.GetCertificate = func(ClientHandshakeInfo) (*Certificate, error) { return list[0], nil }
	s.config.HandshakeTimeout = time.Second
	addr := sessAddr4(10, 0, 0, 1, 4000)
	abandoned := verifBool("an-abandoned-attempt-is-still-pending")
	if abandoned {
		old := hsNewState()
		s.setHandshakeState(addr, old)
		hsAvoidSIDs = [][4]byte{old.sessionID}
	}
	n := HeaderLen + DHLen + KemKeyLen + PQCookieLen + SNILen + MacLen
	u.in, u.inLen, u.inAddr = verifBytes("clientack", n), n, addr
	u.in[0] = byte(MessageTypeClientAck)
	err := s.readPacket(make([]byte, 65535), make([]byte, 65535))
	if err != nil || len(u.sent) == 0 {
		verifCover("rejected")
		return
	}
	if abandoned {
		verifCover("answered-after-abandoned-attempt")
	} else {
		verifCover("answered-fresh")
	}
	sa := u.sent[len(u.sent)-1]
	verifAssert(len(sa) >= HeaderLen+SessionIDLen && sa[0] == byte(MessageTypeServerAuth), "C10: a ClientAck is answered with a ServerAuth")
	if len(sa) < HeaderLen+SessionIDLen {
		return
	}
	tracked := s.handshakes[AddressHashKey(addr)]
	verifAssert(tracked != nil, "C10: the server tracks a handshake for an address it has just sent a ServerAuth to")
	if tracked == nil {
		return
	}
	verifAssert(hsEq(tracked.sessionID[:], sa[HeaderLen:], SessionIDLen), "C10: the ServerAuth the client gets names the session of the handshake the server tracks for that address (otherwise the client's ClientAuth can only fail, and a retry from the same address is impossible until the old attempt times out)")
	_, exists := s.sessions[tracked.sessionID]
	verifAssert(exists, "C10: the session named in a ServerAuth exists")
}
