package transport

import (
	"time"
	"net"

	"hop.computer/hop/certs"
	"hop.computer/hop/keys"
)

// C01 / C02 — what a handshake reader must have checked before it succeeds.

//verif:filestub (*hop.computer/hop/cyclist.Cyclist).Absorb = hsAbsorb
//verif:filestub (*hop.computer/hop/cyclist.Cyclist).Squeeze = hsSqueeze
//verif:filestub (*hop.computer/hop/cyclist.Cyclist).SqueezeKey = hsSqueezeKey
//verif:filestub (*hop.computer/hop/cyclist.Cyclist).Decrypt = hsDecrypt
//verif:filestub (*hop.computer/hop/cyclist.Cyclist).Encrypt = hsEncrypt
//verif:filestub (*hop.computer/hop/cyclist.Cyclist).InitializeEmpty = hsInitEmpty
//verif:filestub (*hop.computer/hop/cyclist.Cyclist).Initialize = hsInit
//verif:filestub (*hop.computer/hop/cyclist.Cyclist).Ratchet = hsRatchet
//verif:filestub (*hop.computer/hop/keys.X25519KeyPair).DH = hsDH
//verif:filestub (*hop.computer/hop/keys.X25519KeyPair).Generate = hsGenerate
//verif:filestub hop.computer/hop/keys.ParseKEMPublicKeyFromBytes = hsParseKEMPublicKey
//verif:filestub (*hop.computer/hop/keys.KEMKeyPair).Decapsulate = hsDecapsulate
//verif:filestub hop.computer/hop/keys.Encapsulate = hsEncapsulate
//verif:filestub hop.computer/hop/keys.GenerateKEMKeyPair = hsGenerateKEMKeyPair
//verif:filestub hop.computer/hop/keys.GenerateKEMKeyPairFromSeed = hsGenerateKEMKeyPairFromSeed
//verif:filestub (*hop.computer/hop/transport.HandshakeState).certificateParserAndVerifier = hsCertVerifier
//verif:filestub hop.computer/hop/kravatte.NewSANSE = sessNewSANSE
//verif:filestub golang.org/x/crypto/sha3.New256 = hsNewSHA3

func hsNewState() *HandshakeState {
	hs := &HandshakeState{dh: new(dhState), kem: new(kemState)}
	hs.dh.ephemeral.Generate()
	hs.kem.ephemeral = keys.KEMKeyPair{Public: &hsKemPub{b: verifFreshBytes("own-kem-public", KemKeyLen)}}
	return hs
}

// hsCheckCovered asserts that message bytes [from, from+n) were bound into the
// transcript by event ev (an absorb or a decrypt of exactly those bytes).
func hsCheckBound(ev hsEv, kind byte, msg []byte, from, n int, label string) {
	ok := verifAnd(ev.kind == kind, len(ev.in) == n)
	if from >= 0 && n >= 0 && from+n <= len(msg) {
		ok = verifAnd(ok, verifBytesEq(ev.in, msg[from:from+n]))
	} else {
		ok = false
	}
	verifAssert(ok, label)
}

// ServerAuth as the client reads it. Success requires: nothing read beyond the
// datagram; header, session id, server ephemeral and the encrypted certificates
// bound into the transcript in order; DH(ee) over the received ephemeral; the
// certificate tag compared; the certificate chain verified BEFORE the static DH;
// DH(es) over the VERIFIED leaf's key, absorbed; and the final MAC compared.
//
//verif:prop C01
//verif:replay none
//verif:bounds ServerAuth datagram of symbolic length 0..160 and symbolic content inside a larger buffer with arbitrary stale bytes; encrypted-certificate length field symbolic; duplex / DH outputs fresh; certificate verdict nondeterministic
//verif:cover accepted;rejected
//verif:timeout 600
func VH_C01_client_reads_serverauth() {
	hsReset()
	hs := hsNewState()
	msg, n := hsDatagram("serverauth", 0, 160)
	consumed, err := hs.readPQServerAuth(msg)
	if err != nil {
		verifCover("rejected")
		return
	}
	verifCover("accepted")
	verifAssert(consumed <= n, "C02: ServerAuth: nothing beyond the received datagram is consumed (no truncated message is accepted)")
	L := int(msg[2])<<8 | int(msg[3])
	verifAssert(consumed == HeaderLen+SessionIDLen+DHLen+L+2*MacLen, "C02: ServerAuth: consumed length is header+session+ephemeral+certs+tag+mac")
	if consumed > n {
		return
	}
	// expected transcript: A(header) A(sid) A(eph) X(eph) A(ee) D(certs) S(tag) [V] X(leafkey) A(es) S(mac)
	verifAssert(len(hsLog) == 10, "C02: ServerAuth: transcript has the expected ten duplex/DH operations")
	if len(hsLog) != 10 {
		return
	}
	hsCheckBound(hsLog[0], 'A', msg, 0, HeaderLen, "C02: ServerAuth: header is absorbed")
	hsCheckBound(hsLog[1], 'A', msg, HeaderLen, SessionIDLen, "C02: ServerAuth: session id is absorbed")
	hsCheckBound(hsLog[2], 'A', msg, HeaderLen+SessionIDLen, DHLen, "C02: ServerAuth: server ephemeral is absorbed")
	hsCheckBound(hsLog[3], 'X', msg, HeaderLen+SessionIDLen, DHLen, "C01: ServerAuth: DH(ee) is computed over the received ephemeral")
	verifAssert(verifAnd(hsLog[4].kind == 'A', hsEq(hsLog[4].in, hsLog[3].out, 32)), "C01: ServerAuth: DH(ee) output is absorbed")
	hsCheckBound(hsLog[5], 'D', msg, HeaderLen+SessionIDLen+DHLen, L, "C02: ServerAuth: the encrypted certificates are bound into the transcript")
	tagOff := HeaderLen + SessionIDLen + DHLen + L
	verifAssert(verifAnd(hsLog[6].kind == 'S', hsEq(hsLog[6].out, msg[tagOff:], MacLen)), "C01: ServerAuth: the certificate tag equals the expected squeeze (comparison gates success)")
	verifAssert(verifAnd(hsVerify.calls == 1, verifAnd(hsVerify.ok, hsVerify.atEvent == 7)), "C01: ServerAuth: the certificate chain was verified, successfully, after the tag and before the static DH")
	verifAssert(verifAnd(hsLog[7].kind == 'X', hsEq(hsLog[7].in, hsVerify.leafKey[:], 32)), "C01: ServerAuth: DH(es) is computed over the verified leaf's public key")
	verifAssert(verifAnd(hsLog[8].kind == 'A', hsEq(hsLog[8].in, hsLog[7].out, 32)), "C01: ServerAuth: DH(es) output is absorbed before the final MAC")
	verifAssert(verifAnd(hsLog[9].kind == 'S', hsEq(hsLog[9].out, msg[tagOff+MacLen:], MacLen)), "C01: ServerAuth: the final MAC equals the expected squeeze (proof of possession gates success)")
	verifAssert(verifAnd(hs.sessionID[0] == msg[4], hs.sessionID[3] == msg[7]), "C02: ServerAuth: the session id adopted is the one received")
}

type hsExch struct{ pub [32]byte }

func (e *hsExch) Share() []byte { return e.pub[:] }
func (e *hsExch) Agree(other []byte) ([]byte, error) {
	out := verifFreshBytes("dh-static", 32)
	hsLog = append(hsLog, hsEv{kind: 'X', in: hsCopy(other), out: out})
	return out, nil
}

func hsServer(hidden bool) (*Server, *sessUDP) {
	u := &sessUDP{}
	s := &Server{udpConn: u, sessions: map[SessionID]*SessionState{}, handshakes: map[string]*HandshakeState{}, pendingConnections: make(chan *Handle, 4)}
	s.state.Store(uint32(serverStateServing))
	copy(s.cookieKey[:], verifBytes("cookie-key", KeyLen))
	s.config.IsHidden = hidden
	return s, u
}

// ClientAuth as the server reads it (the client's proof of possession).
//
//verif:prop C01
//verif:replay none
//verif:bounds ClientAuth datagram of symbolic length 0..140 and symbolic content inside a larger buffer with arbitrary stale bytes; pending handshake for the source address with symbolic session id; duplex / DH outputs fresh; certificate verdict nondeterministic
//verif:cover accepted;rejected
//verif:timeout 600
func VH_C01_server_reads_clientauth() {
	hsReset()
	s, _ := hsServer(false)
	addr := sessAddr4(10, 0, 0, 1, 4000)
	hs := hsNewState()
	copy(hs.sessionID[:], verifBytes("session-id", 4))
	s.handshakes[AddressHashKey(addr)] = hs
	msg, n := hsDatagram("clientauth", 0, 140)
	hsLog = nil
	consumed, got, err := s.readPQClientAuth(msg, addr)
	if err != nil {
		verifCover("rejected")
		verifAssert(got == nil, "C01: ClientAuth: no handshake state is returned on rejection")
		return
	}
	verifCover("accepted")
	verifAssert(got == hs, "C01: ClientAuth: the state returned is the one pending for the source address")
	verifAssert(consumed <= n, "C02: ClientAuth: nothing beyond the received datagram is consumed (a truncated message is not accepted)")
	L := int(msg[2])<<8 | int(msg[3])
	verifAssert(consumed == HeaderLen+SessionIDLen+L+2*MacLen, "C02: ClientAuth: consumed length is header+session+certs+tag+mac")
	if consumed > n {
		return
	}
	// A(header) A(sid) D(certs) S(tag) [V] X(leafkey) A(se) S(mac)
	verifAssert(len(hsLog) == 7, "C02: ClientAuth: transcript has the expected seven duplex/DH operations")
	if len(hsLog) != 7 {
		return
	}
	hsCheckBound(hsLog[0], 'A', msg, 0, HeaderLen, "C02: ClientAuth: header is absorbed")
	hsCheckBound(hsLog[1], 'A', msg, HeaderLen, SessionIDLen, "C02: ClientAuth: session id is absorbed")
	verifAssert(hsEq(msg[HeaderLen:], hs.sessionID[:], 4), "C02: ClientAuth: session id equals the pending handshake's")
	hsCheckBound(hsLog[2], 'D', msg, HeaderLen+SessionIDLen, L, "C02: ClientAuth: the encrypted certificates are bound into the transcript")
	tagOff := HeaderLen + SessionIDLen + L
	verifAssert(verifAnd(hsLog[3].kind == 'S', hsEq(hsLog[3].out, msg[tagOff:], MacLen)), "C01: ClientAuth: the certificate tag equals the expected squeeze")
	verifAssert(verifAnd(hsVerify.calls == 1, verifAnd(hsVerify.ok, hsVerify.atEvent == 4)), "C01: ClientAuth: the client's certificate satisfied the verifier, after the tag and before the static DH")
	verifAssert(verifAnd(hsLog[4].kind == 'X', hsEq(hsLog[4].in, hsVerify.leafKey[:], 32)), "C01: ClientAuth: DH(se) is computed over the verified client leaf's key")
	verifAssert(verifAnd(hsLog[5].kind == 'A', hsEq(hsLog[5].in, hsLog[4].out, 32)), "C01: ClientAuth: DH(se) output is absorbed before the final MAC")
	verifAssert(verifAnd(hsLog[6].kind == 'S', hsEq(hsLog[6].out, msg[tagOff+MacLen:], MacLen)), "C01: ClientAuth: the final MAC equals the expected squeeze (client's proof of possession)")
	verifAssert(verifAnd(hs.parsedLeaf != nil, hs.parsedLeaf.PublicKey == hsVerify.leafKey), "C01: ClientAuth: the leaf recorded for the application is the verified one")
}

func sessAddr4(a, b, c, d byte, port int) *net.UDPAddr {
	return &net.UDPAddr{IP: net.IP{a, b, c, d}, Port: port}
}

// ServerHello as the client reads it.
//
//verif:prop C02
//verif:replay none
//verif:bounds ServerHello datagram of symbolic length 800..900 inside a larger buffer with stale bytes, all bytes symbolic
//verif:cover accepted;rejected
func VH_C02_client_reads_serverhello() {
	hsReset()
	hs := hsNewState()
	msg, n := hsDatagram("serverhello", 800, 900)
	consumed, err := readPQServerHello(hs, msg)
	if err != nil {
		verifCover("rejected")
		return
	}
	verifCover("accepted")
	verifAssert(verifAnd(consumed == HeaderLen+KemCtLen+PQCookieLen+MacLen, consumed <= n), "C02: ServerHello: exactly the message, inside the datagram, is consumed")
	// A(header) C(ct) A(k) A(cookie) S(mac)
	verifAssert(len(hsLog) == 5, "C02: ServerHello: transcript has the expected five operations")
	if len(hsLog) != 5 {
		return
	}
	hsCheckBound(hsLog[0], 'A', msg, 0, HeaderLen, "C02: ServerHello: header is absorbed")
	hsCheckBound(hsLog[1], 'C', msg, HeaderLen, KemCtLen, "C02: ServerHello: the KEM ciphertext is what gets decapsulated")
	verifAssert(verifAnd(hsLog[2].kind == 'A', hsEq(hsLog[2].in, hsLog[1].out, PQSharedSecretLen)), "C02: ServerHello: the decapsulated secret is absorbed")
	hsCheckBound(hsLog[3], 'A', msg, HeaderLen+KemCtLen, PQCookieLen, "C02: ServerHello: the cookie is absorbed")
	verifAssert(verifAnd(hsLog[4].kind == 'S', hsEq(hsLog[4].out, msg[HeaderLen+KemCtLen+PQCookieLen:], MacLen)), "C02: ServerHello: the MAC equals the expected squeeze")
	verifAssertBytesEq(hs.cookie, msg[HeaderLen+KemCtLen:HeaderLen+KemCtLen+PQCookieLen], "C02: ServerHello: the cookie kept for the ClientAck is the received one")
}

// ClientHello as the server reads it.
//
//verif:prop C02
//verif:replay none
//verif:bounds ClientHello datagram of symbolic length 780..860 inside a larger buffer with stale bytes, all bytes symbolic
//verif:cover accepted;rejected
func VH_C02_server_reads_clienthello() {
	hsReset()
	hs := &HandshakeState{dh: new(dhState), kem: new(kemState)}
	msg, n := hsDatagram("clienthello", 780, 860)
	consumed, err := readPQClientHello(hs, msg)
	if err != nil {
		verifCover("rejected")
		return
	}
	verifCover("accepted")
	verifAssert(verifAnd(consumed == HeaderLen+KemKeyLen+MacLen, consumed <= n), "C02: ClientHello: exactly the message, inside the datagram, is consumed")
	verifAssert(len(hsLog) == 3, "C02: ClientHello: transcript has the expected three operations")
	if len(hsLog) != 3 {
		return
	}
	hsCheckBound(hsLog[0], 'A', msg, 0, HeaderLen, "C02: ClientHello: header is absorbed")
	hsCheckBound(hsLog[1], 'A', msg, HeaderLen, KemKeyLen, "C02: ClientHello: the client's KEM key is absorbed")
	verifAssert(verifAnd(hsLog[2].kind == 'S', hsEq(hsLog[2].out, msg[HeaderLen+KemKeyLen:], MacLen)), "C02: ClientHello: the MAC equals the expected squeeze")
	verifAssert(verifAnd(msg[0] == byte(MessageTypeClientHello), verifAnd(msg[1] == Version, verifAnd(msg[2] == 0, msg[3] == 0))), "C02: ClientHello: header fields are checked")
}

// The hidden-mode ServerResponse as the client reads it (the server's proof of
// possession in the one-round-trip handshake).
//
//verif:prop C01
//verif:replay none
//verif:bounds hidden ServerResponse datagram of symbolic length 780..900 inside a larger buffer with stale bytes, all bytes symbolic, certificate-length field symbolic; duplex / KEM / DH outputs fresh; certificate verdict nondeterministic
//verif:cover accepted;rejected
//verif:timeout 600
func VH_C01_client_reads_hidden_serverresponse() {
	hsReset()
	hs := hsNewState()
	hs.dh.static = &hsExch{}
	msg, n := hsDatagram("serverresponse", 780, 900)
	consumed, err := hs.readPQServerResponseHidden(msg)
	if err != nil {
		verifCover("rejected")
		return
	}
	verifCover("accepted")
	L := int(msg[2])<<8 | int(msg[3])
	verifAssert(verifAnd(consumed <= n, consumed == HeaderLen+SessionIDLen+KemCtLen+L+2*MacLen), "C02: hidden ServerResponse: exactly the message, inside the datagram, is consumed")
	if consumed > n {
		return
	}
	// A(header) A(sid) C(ct) A(ek) D(certs) S(tag) [V] X(leafkey) A(ss) S(mac)
	verifAssert(len(hsLog) == 9, "C02: hidden ServerResponse: transcript has the expected nine operations")
	if len(hsLog) != 9 {
		return
	}
	hsCheckBound(hsLog[0], 'A', msg, 0, HeaderLen, "C02: hidden ServerResponse: header is absorbed")
	hsCheckBound(hsLog[1], 'A', msg, HeaderLen, SessionIDLen, "C02: hidden ServerResponse: session id is absorbed")
	hsCheckBound(hsLog[2], 'C', msg, HeaderLen+SessionIDLen, KemCtLen, "C02: hidden ServerResponse: the KEM ciphertext is what gets decapsulated")
	verifAssert(verifAnd(hsLog[3].kind == 'A', hsEq(hsLog[3].in, hsLog[2].out, PQSharedSecretLen)), "C02: hidden ServerResponse: the decapsulated secret is absorbed")
	hsCheckBound(hsLog[4], 'D', msg, HeaderLen+SessionIDLen+KemCtLen, L, "C02: hidden ServerResponse: the encrypted certificates are bound into the transcript")
	tagOff := HeaderLen + SessionIDLen + KemCtLen + L
	verifAssert(verifAnd(hsLog[5].kind == 'S', hsEq(hsLog[5].out, msg[tagOff:], MacLen)), "C01: hidden ServerResponse: the certificate tag equals the expected squeeze")
	verifAssert(verifAnd(hsVerify.calls == 1, verifAnd(hsVerify.ok, hsVerify.atEvent == 6)), "C01: hidden ServerResponse: the server's chain was verified before the static DH")
	verifAssert(verifAnd(hsLog[6].kind == 'X', hsEq(hsLog[6].in, hsVerify.leafKey[:], 32)), "C01: hidden ServerResponse: DH(ss) is computed over the verified leaf's key")
	verifAssert(verifAnd(hsLog[7].kind == 'A', hsEq(hsLog[7].in, hsLog[6].out, 32)), "C01: hidden ServerResponse: DH(ss) output is absorbed before the final MAC")
	verifAssert(verifAnd(hsLog[8].kind == 'S', hsEq(hsLog[8].out, msg[tagOff+MacLen:], MacLen)), "C01: hidden ServerResponse: the final MAC equals the expected squeeze (proof of possession gates success)")
}

// The client's discoverable flow end to end (fake socket): it succeeds only if
// both datagrams it received were consumed EXACTLY (no truncation completed
// from stale buffer bytes, no trailing bytes).
//
//verif:prop C02
//verif:replay none
//verif:bounds client flow ClientHello -> ServerHello -> ClientAck -> ServerAuth -> ClientAuth over a fake socket; ServerHello datagram length symbolic 840..860, ServerAuth length symbolic 60..140, all bytes symbolic (the receive buffer keeps whatever was written into it before)
//verif:cover completed;aborted
//verif:timeout 600
func VH_C02_client_flow_consumes_each_datagram_exactly() {
	hsReset()
	u := &sessUDP{}
	hs := hsNewState()
	hs.dh.static = &hsExch{}
	hs.certVerify = &VerifyConfig{Name: certs.RawStringName("srv")}
	hs.leaf = verifBytes("client-leaf", 12)
	hs.remoteAddr = sessAddr4(10, 0, 0, 2, 77)
	c := &Client{hs: hs, underlyingConn: u}
	n1 := verifInt("serverhello-len")
	verifAssume(n1 >= 840 && n1 <= 860)
	n2 := verifInt("serverauth-len")
	verifAssume(n2 >= 60 && n2 <= 140)
	u.in, u.inLen = verifBytes("serverhello", 860), n1
	u.in2, u.inLen2 = verifBytes("serverauth", 140), n2
	err := c.beginPQDiscoverableHandshake(make([]byte, 65535))
	if err != nil {
		verifCover("aborted")
		return
	}
	verifCover("completed")
	verifAssert(n1 == HeaderLen+KemCtLen+PQCookieLen+MacLen, "C02: the client completes only if the ServerHello datagram had exactly the ServerHello length (no truncation, no extension)")
	L := int(u.in2[2])<<8 | int(u.in2[3])
	verifAssert(n2 == HeaderLen+SessionIDLen+DHLen+L+2*MacLen, "C02: the client completes only if the ServerAuth datagram had exactly the announced length")
	verifAssert(verifAnd(u.writes == 3, u.reads == 2), "C02: three datagrams out, two in")
}

// The client's handshake driver: it reports success only if the mode-specific
// exchange reported success, and then the session uses the directional keys
// the right way round.
//
//verif:prop C02
//verif:replay none
//verif:stub (*hop.computer/hop/transport.Client).beginPQHiddenHandshake = c02BeginHidden
//verif:stub (*hop.computer/hop/transport.Client).beginPQDiscoverableHandshake = c02BeginDiscoverable
//verif:bounds hidden or discoverable mode; the mode-specific exchange succeeds or fails nondeterministically; duplex recorded
//verif:cover completed;aborted
func VH_C02_client_driver_succeeds_only_if_the_exchange_did() { c02Driver("C02") }

//verif:prop C01
//verif:replay none
//verif:stub (*hop.computer/hop/transport.Client).beginPQHiddenHandshake = c02BeginHidden
//verif:stub (*hop.computer/hop/transport.Client).beginPQDiscoverableHandshake = c02BeginDiscoverable
//verif:bounds as VH_C02_client_driver_succeeds_only_if_the_exchange_did
//verif:cover completed;aborted
func VH_C01_client_reports_success_only_after_server_proved_its_key() { c02Driver("C01") }

var c02Exchange struct {
	hiddenCalls, discCalls int
	ok                     bool
}

func c02BeginHidden(c *Client, buf []byte) error {
	c02Exchange.hiddenCalls++
	if c02Exchange.ok {
		return nil
	}
	return ErrInvalidMessage
}

func c02BeginDiscoverable(c *Client, buf []byte) error {
	c02Exchange.discCalls++
	if c02Exchange.ok {
		return nil
	}
	return ErrInvalidMessage
}

func c02Driver(prop string) {
	hsReset()
	c02Exchange.hiddenCalls, c02Exchange.discCalls = 0, 0
	c02Exchange.ok = verifBool("exchange-succeeds")
	hidden := verifBool("hidden-mode")
	u := &sessUDP{}
	c := &Client{underlyingConn: u, dialAddr: sessAddr4(10, 0, 0, 2, 77), closeDone: make(chan struct{})}
	c.config.Exchanger = &hsExch{}
	c.config.Leaf = &certs.Certificate{}
	c.config.Verify.InsecureSkipVerify = true
	if hidden {
		var k keys.KEMPublicKey = &hsKemPub{b: verifFreshBytes("server-kem", KemKeyLen)}
		c.config.ServerKEMKey = &k
	}
	// handshake time limit: none, a timeout, an absolute deadline, or both
	if verifBool("handshake-timeout-configured") {
		c.config.HSTimeout = 5 * time.Second
	}
	if verifBool("handshake-deadline-configured") {
		c.config.HSDeadline = time.Unix(int64(verifU32("handshake-deadline")), 0)
	}
	c.state.Store(clientStateHandshaking)
	err := c.clientHandshakeLocked()
	if err != nil {
		verifCover("aborted")
		verifAssert(c.ss == nil || c.ss.handle == nil, prop+": a failed handshake leaves no usable session")
		return
	}
	verifCover("completed")
	verifAssert(c02Exchange.ok, prop+": the client reports a completed handshake only if the message exchange itself succeeded (every reader accepted)")
	verifAssert(verifAnd(c02Exchange.hiddenCalls == 1, c02Exchange.discCalls == 0) == hidden, prop+": exactly the configured mode's exchange ran")
	verifAssert(c.ss != nil && c.ss.readKey == &c.ss.serverToClientKey && c.ss.writeKey == &c.ss.clientToServerKey, prop+": the client reads with the server-to-client key and writes with the client-to-server key")
	verifAssert(c.ss.isHiddenHS == hidden, prop+": the session remembers its handshake mode")
	verifAssert(!u.deadlineArmed, prop+": no handshake deadline is left armed on the socket of an established session (however the limit was configured), or everything the peer sends after that instant is lost")
}

//verif:prop C03
//verif:replay none
//verif:stub (*hop.computer/hop/transport.Client).beginPQHiddenHandshake = c02BeginHidden
//verif:stub (*hop.computer/hop/transport.Client).beginPQDiscoverableHandshake = c02BeginDiscoverable
//verif:bounds as VH_C02_client_driver_succeeds_only_if_the_exchange_did; handshake time limit configured as none / timeout / absolute deadline / both
//verif:cover completed;aborted
func VH_C03_established_client_session_has_no_handshake_deadline_armed() { c02Driver("C03") }

// ---- C10: the CLIENT's handshake readers on whatever arrives ----
// (the same harnesses: datagram of symbolic length and content inside a buffer
// with arbitrary stale bytes; a panic is a violation)

//verif:prop C10
//verif:replay none
//verif:bounds as VH_C02_client_reads_serverhello with the datagram length symbolic 0..4096
//verif:cover accepted;rejected
func VH_C10_client_survives_any_serverhello_datagram() {
	hsAnyLength = true
	VH_C02_client_reads_serverhello()
}

//verif:prop C10
//verif:replay none
//verif:bounds as VH_C01_client_reads_serverauth with the datagram length symbolic 0..4096
//verif:cover accepted;rejected
func VH_C10_client_survives_any_serverauth_datagram() {
	hsAnyLength = true
	VH_C01_client_reads_serverauth()
}

//verif:prop C10
//verif:replay none
//verif:bounds as VH_C01_client_reads_hidden_serverresponse with the datagram length symbolic 0..4096
//verif:cover accepted;rejected
func VH_C10_client_survives_any_hidden_serverresponse_datagram() {
	hsAnyLength = true
	VH_C01_client_reads_hidden_serverresponse()
}

//verif:prop C10
//verif:replay none
//verif:bounds as VH_C02_client_flow_consumes_each_datagram_exactly
//verif:cover completed;aborted
//verif:timeout 600
func VH_C10_client_handshake_flow_survives_any_two_server_datagrams() {
	VH_C02_client_flow_consumes_each_datagram_exactly()
}
