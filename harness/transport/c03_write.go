package transport

import (
	"errors"
	"net"
)

// C03 — every byte accepted by a write call is sent, in order, and the call
// reports exactly the number of bytes it sent.

//verif:prop C03
//verif:stub hop.computer/hop/kravatte.NewSANSE = sessNewSANSE
//verif:bounds one Handle.Write of symbolic length 0..3*MaxPlaintextSize+1 with symbolic content on an established session; AEAD seal recorded (plaintext of each packet); socket accepts every datagram
//verif:cover one-packet;two-packets;three-packets;four-packets
//verif:unwind 12
//verif:timeout 400
func VH_C03_write_sends_every_byte_once_in_order() {
	sessCreated = 0
	ss := sessState(1)
	ss.handleState = established
	ss.readKey, ss.writeKey = &ss.clientToServerKey, &ss.serverToClientKey
	verifAssume(ss.count < 1<<62)
	u := ss.handle.underlying.(*sessUDP)
	n := verifInt("len")
	verifAssume(n >= 0 && n <= 3*MaxPlaintextSize+1)
	buf := verifBytes("payload", n)
	oldCount := ss.count
	wrote, err := ss.handle.Write(buf)
	verifAssert(err == nil, "C03: Write on an established session with a working socket succeeds")
	if err != nil {
		return
	}
	verifAssert(wrote == n, "C03: Write reports exactly the number of bytes it was given")
	k := len(sessLog.seals)
	verifAssert(u.writes == k, "C03: one datagram per sealed packet")
	verifAssert(sessCreated == k, "C03: every packet is sealed by an AEAD instance of its own (SANSE keeps a session history: with a shared instance one lost, reordered or forged datagram makes every later packet fail to open)")
	verifAssert(ss.count == oldCount+uint64(k), "C03: the send counter advances once per packet")
	total := 0
	i := verifInt("probe")
	verifAssume(i >= 0 && i < n)
	found := false
	for j := 0; j < k; j++ {
		pt := sessLog.seals[j].pt
		verifAssert(len(pt) <= MaxPlaintextSize, "C03: every packet payload fits the maximum")
		if i >= total && i < total+len(pt) {
			verifAssert(pt[i-total] == buf[i], "C03: the packets' payloads concatenate to the written buffer")
			found = true
		}
		total += len(pt)
	}
	verifAssert(total == n, "C03: the packets carry exactly the bytes written (nothing skipped, nothing repeated)")

	if n > 0 {
		verifAssert(found, "C03: every written byte is carried by some packet")
	}
	switch k {
	case 1:
		verifCover("one-packet")
	case 2:
		verifCover("two-packets")
	case 3:
		verifCover("three-packets")
	case 4:
		verifCover("four-packets")
	}
}

// WriteMsg refuses what does not fit one packet and sends everything else as
// exactly one packet whose header binds type, session and a fresh counter.
//
//verif:prop C03
//verif:stub hop.computer/hop/kravatte.NewSANSE = sessNewSANSE
//verif:bounds one WriteMsg of symbolic length 0..MaxPlaintextSize+2
//verif:cover sent;refused
func VH_C03_writemsg_seals_header_session_counter() {
	ss := sessState(1)
	ss.handleState = established
	ss.readKey, ss.writeKey = &ss.clientToServerKey, &ss.serverToClientKey
	u := ss.handle.underlying.(*sessUDP)
	n := verifInt("len")
	verifAssume(n >= 0 && n <= MaxPlaintextSize+2)
	buf := verifBytes("payload", n)
	oldCount := ss.count
	err := ss.handle.WriteMsg(buf)
	if n > MaxPlaintextSize {
		verifAssert(err == ErrBufOverflow && u.writes == 0, "C03: a message larger than one packet is refused")
		verifCover("refused")
		return
	}
	verifAssert(err == nil, "C03: WriteMsg succeeds")
	if err != nil {
		return
	}
	verifCover("sent")
	verifAssert(len(sessLog.seals) == 1 && u.writes == 1, "C03: one packet per message")
	rec := sessLog.seals[0]
	pkt := u.lastPkt
	verifAssert(len(pkt) == 16+n+TagLen, "C03: packet = header + body + tag")
	verifAssert(rec.key == ss.serverToClientKey, "C03: sealed under this direction's write key")
	verifAssert(len(rec.ad) == 16, "C03: associated data is the 16-byte header")
	if len(pkt) == 16+n+TagLen && len(rec.ad) == 16 {
		ok := pkt[0] == byte(MessageTypeTransport)
		ok = verifAnd(ok, verifAnd(pkt[1] == 0, verifAnd(pkt[2] == 0, pkt[3] == 0)))
		for i := 0; i < 4; i++ {
			ok = verifAnd(ok, pkt[4+i] == ss.sessionID[i])
		}
		for i := 0; i < 8; i++ {
			ok = verifAnd(ok, pkt[8+i] == byte(oldCount>>(56-8*i)))
		}
		for i := 0; i < 16; i++ {
			ok = verifAnd(ok, rec.ad[i] == pkt[i])
		}
		verifAssert(ok, "C03: header carries type, session id and the pre-increment counter, and is the associated data")
		verifAssertBytesEq(pkt[16:], rec.ct, "C03: body is the AEAD output")
		verifAssertBytesEq(rec.pt, buf, "C03: the sealed plaintext is the message")
	}
	verifAssert(ss.count == oldCount+1, "C03: the send counter advances")
}

// Reading: each queued message is returned exactly once, whole (ReadMsg) or in
// order across short reads (Read); a too-short ReadMsg buffer loses nothing.
//
//verif:prop C03
//verif:bounds two queued messages of symbolic lengths 0..6 and symbolic content; ReadMsg / Read with buffers of symbolic size 0..8, three calls
//verif:cover readmsg;read
//verif:timeout 600
func VH_C03_queued_messages_are_returned_once_in_order() {
	ss := sessState(4)
	ss.handleState = established
	h := ss.handle
	n1, n2 := verifPick("len1", 0, 1, 3, 6), verifPick("len2", 1, 2)
	m1, m2 := verifBytes("msg1", n1), verifBytes("msg2", n2)
	h.recv.C <- m1
	h.recv.C <- m2
	if verifBool("use-readmsg") {
		verifCover("readmsg")
		bl := verifPick("buflen", 0, 2, 3, 8)
		buf := make([]byte, bl)
		k, err := h.ReadMsg(buf)
		if bl >= n1 {
			verifAssert(err == nil && k == n1, "C03: ReadMsg returns the first queued message whole")
			verifAssertBytesEq(buf[:k], m1, "C03: ReadMsg returns the first queued message's bytes")
		} else {
			verifAssert(err == ErrBufOverflow && k == 0, "C03: ReadMsg into a too-short buffer reports overflow and returns nothing")
			// the message is not lost: a large enough buffer gets it next
			big := make([]byte, 8)
			k, err = h.ReadMsg(big)
			verifAssert(err == nil && k == n1, "C03: a message that did not fit is returned by the next ReadMsg, whole")
			verifAssertBytesEq(big[:k], m1, "C03: a message that did not fit is returned unchanged")
		}
		big := make([]byte, 8)
		k, err = h.ReadMsg(big)
		verifAssert(err == nil && k == n2, "C03: the second message follows, once")
		verifAssertBytesEq(big[:k], m2, "C03: the second message is unchanged")
		return
	}
	verifCover("read")
	// stream reads with a small buffer: the concatenation of what is read is m1 || m2
	var got []byte
	bl := verifPick("buflen", 1, 2, 8)
	for i := 0; i < 12 && len(got) < n1+n2; i++ {
		buf := make([]byte, bl)
		k, err := h.Read(buf)
		verifAssert(err == nil, "C03: Read of queued data succeeds")
		if err != nil {
			return
		}
		got = append(got, buf[:k]...)
	}
	verifAssert(len(got) == n1+n2, "C03: stream reads return every queued byte exactly once")
	if len(got) == n1+n2 {
		verifAssertBytesEq(got[:n1], m1, "C03: stream reads return the first message's bytes first, in order")
		verifAssertBytesEq(got[n1:], m2, "C03: stream reads then return the second message's bytes, in order")
	}
}

// A faithful network delivers what Write produced only if the receiver's
// datagram buffer can hold the largest packet a writer may emit.
//
//verif:prop C03
//verif:replay none
//verif:bounds the receive loops of Server.Serve and Client.listen are run for one read on a fake socket that records the buffer it is handed
//verif:cover server;client
func VH_C03_receive_buffers_hold_the_largest_packet() {
	largest := HeaderLen + SessionIDLen + CounterLen + MaxPlaintextSize + TagLen
	if verifBool("server") {
		u := &c03BufProbe{}
		s := &Server{udpConn: u, sessions: map[SessionID]*SessionState{}, handshakes: map[string]*HandshakeState{}, closeDone: make(chan struct{}), stopCookieRotate: make(chan struct{})}
		u.onRead = func() { s.state.Store(uint32(serverStateClosing)) }
		close(s.closeDone)
		// Serve starts its two workers with go statements (recorded, not run)
		// and then waits; the first recorded worker is the receive loop
		verifAssert(s.Serve() == nil, "C03: Serve starts")
		verifAssert(verifRunGo("Serve$1"), "C03: the server's receive loop exists")
		verifAssert(u.reads == 1 && u.bufLen >= largest, "C03: the server's receive buffer holds the largest packet a client Write can produce (header + counter + MaxPlaintextSize + tag)")
		verifCover("server")
		return
	}
	u := &c03BufProbe{}
	c := &Client{underlyingConn: u, ss: sessState(1), closeDone: make(chan struct{})}
	u.onRead = func() { c.state.Store(clientStateClosed) }
	c.state.Store(clientStateOpen)
	c.wg.Add(1)
	c.listen()
	verifAssert(u.reads >= 1 && u.bufLen >= largest, "C03: the client's receive buffer holds the largest packet a server Write can produce")
	verifCover("client")
}

type c03BufProbe struct {
	sessUDP
	bufLen int
	reads  int
	onRead func()
}

func (p *c03BufProbe) ReadMsgUDP(b, oob []byte) (int, int, int, *net.UDPAddr, error) {
	p.reads++
	p.bufLen = len(b)
	if p.onRead != nil {
		p.onRead()
	}
	return 0, 0, 0, nil, errors.New("stop")
}

// The 2-byte length-prefixed vectors that carry the leaf and intermediate
// certificates inside the handshake: what writeVector frames, readVector
// returns, for every length the prefix can announce.
//
//verif:prop C18
//verif:bounds two consecutive vectors (leaf, intermediate) of length picked from {0,1,255,256,257,660,4096} with symbolic bytes, written by writeVector and split by readVector exactly as EncryptCertificates / DecryptCertificates do
//verif:cover roundtrip
func VH_C18_certificate_vectors_roundtrip() {
	leaf := verifBytes("leaf", verifPick("leaf-len", 0, 1, 255, 256, 257, 660, 4096))
	inter := verifBytes("intermediate", verifPick("intermediate-len", 0, 1, 255, 256, 660))
	b := make([]byte, len(leaf)+len(inter)+4)
	n, err := writeVector(b, leaf)
	verifAssert(err == nil && n == 2+len(leaf), "C18: writeVector frames the leaf")
	_, err = writeVector(b[n:], inter)
	verifAssert(err == nil, "C18: writeVector frames the intermediate")
	l1, got1, err := readVector(b)
	verifAssert(err == nil && l1 == len(leaf), "C18: readVector recovers the leaf's length")
	if err != nil || l1 != len(leaf) {
		return
	}
	verifAssertBytesEq(got1, leaf, "C18: certificate vector round-trip: leaf")
	l2, got2, err := readVector(b[2+l1:])
	verifAssert(err == nil && l2 == len(inter), "C18: readVector recovers the intermediate's length")
	if err == nil && l2 == len(inter) {
		verifAssertBytesEq(got2, inter, "C18: certificate vector round-trip: intermediate")
	}
	verifCover("roundtrip")
}

//verif:prop C12
//verif:replay none
//verif:stub hop.computer/hop/kravatte.NewSANSE = sessNewSANSE
//verif:bounds as VH_C03_write_sends_every_byte_once_in_order (the transport's use of the AEAD: one instance per packet)
//verif:cover one-packet;two-packets;three-packets;four-packets
//verif:unwind 12
//verif:timeout 400
func VH_C12_transport_seals_every_packet_with_its_own_aead_instance() {
	VH_C03_write_sends_every_byte_once_in_order()
}

//verif:prop C12
//verif:replay none
//verif:bounds as VH_C03_receive_buffers_hold_the_largest_packet (a maximum-size sealed packet must arrive whole to open)
//verif:cover server;client
func VH_C12_receive_buffers_hold_the_largest_sealed_packet() {
	VH_C03_receive_buffers_hold_the_largest_packet()
}
