package transport

import (
	"crypto/cipher"
	"net"
)

// C03 with two writers on one session. The engine is sequential, so the second
// writer is scripted into the one place where the first is outside the session
// lock: the socket write (Handle.send seals under ss.m, releases it, then
// writes) - or, inside the lock, into the creation of the packet's AEAD instance
// (between reading the counter and sending). On the tree as it is both switch
// points end blocked on the write lock (= the writers are serialised, not
// counted); the sequential schedule is checked too. No two packets of a session
// may ever carry the same counter under the same key.

type sessSwitchUDP struct {
	sessUDP
	h      *Handle
	second int // 0: none, 1: at the socket write, 2: at the AEAD creation
	ran    bool
	err2   error
}

func (u *sessSwitchUDP) WriteMsgUDP(b, oob []byte, addr *net.UDPAddr) (int, int, error) {
	if !u.ran && u.second == 1 {
		u.ran = true
		verifCover("second-writer-scheduled-inside-the-first")
		u.err2 = u.h.WriteMsg([]byte{0x42})
	}
	return u.sessUDP.WriteMsgUDP(b, oob, addr)
}

var c03Switch *sessSwitchUDP

func c03SwitchNewSANSE(key []byte) (cipher.AEAD, error) {
	if u := c03Switch; u != nil && !u.ran && u.second == 2 {
		u.ran = true
		verifCover("second-writer-scheduled-inside-the-first")
		u.err2 = u.h.WriteMsg([]byte{0x42})
	}
	return sessNewSANSE(key)
}

//verif:prop C03
//verif:restub hop.computer/hop/kravatte.NewSANSE = c03SwitchNewSANSE
//verif:replay none
//verif:bounds one established session with symbolic send counter; WriteMsg of 1 symbolic byte, then a second WriteMsg that runs after it, or is scripted into the first one's socket write (session lock released) or into the creation of its AEAD instance (inside the seal); a switch that ends blocked on a lock is serialisation and not counted; one scripted switch, not all interleavings
//verif:cover second-writer-scheduled-inside-the-first;checked
func VH_C03_overlapping_writers_never_reuse_a_counter() {
	ss := sessState(1)
	ss.handleState = established
	ss.readKey, ss.writeKey = &ss.clientToServerKey, &ss.serverToClientKey
	verifAssume(ss.count < 1<<63)
	u := &sessSwitchUDP{second: verifPick("second-writer-scheduled", 0, 1, 2)}
	c03Switch = u
	h := newHandleForSession(u, ss, nil, 1)
	ss.handle = h
	u.h = h
	_ = h.WriteMsg(verifBytes("payload", 1))
	if !u.ran {
		_ = h.WriteMsg([]byte{0x43})
	}
	verifCover("checked")
	sent := u.sent
	verifAssert(len(sent) >= 2, "harness: at least two packets were written")
	verifAssert(len(sent) == len(sessLog.seals), "C03: every packet written was sealed once")
	for i := 0; i < len(sent); i++ {
		for j := i + 1; j < len(sent); j++ {
			if len(sent[i]) < 16 || len(sent[j]) < 16 {
				verifAssert(false, "C03: every packet has a full header")
				continue
			}
			same := true
			for k := 8; k < 16; k++ {
				same = verifAnd(same, sent[i][k] == sent[j][k])
			}
			verifAssert(!same, "C03: two packets of one session never carry the same counter")
		}
	}
}
