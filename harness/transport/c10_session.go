package transport

// C10 — session-layer datagrams from anyone: no panic, no wedge.

// A datagram of ANY length 0..65535 and ANY content (in particular one that
// copies the public session id of a live session) handed to the server's
// session-message handler: returns without panicking, and unless its AEAD
// open succeeded the session is left exactly as it was.
//
//verif:prop C10
//verif:stub hop.computer/hop/kravatte.NewSANSE = sessNewSANSE
//verif:bounds datagram length symbolic 0..65535, every byte symbolic; session state arbitrary (keys, 8x64-bit window + top, lifecycle state in {finishing, established, closed}, peer address); receive queue capacity 1 with 0 or 1 queued; AEAD open nondeterministic
//verif:cover unknown-session;short;open-failed;delivered;closed-session
func VH_C10_server_session_message_any_datagram() {
	ss := sessState(1)
	ss.handleState = connState(verifPick("handleState", int(finishingHandshake), int(established), int(closed)))
	if verifBool("has-keys") {
		ss.readKey = &ss.clientToServerKey
		ss.writeKey = &ss.serverToClientKey
	}
	if verifBool("queue-full") {
		ss.handle.recv.C <- []byte{1}
	}
	s := &Server{sessions: map[SessionID]*SessionState{ss.sessionID: ss}, handshakes: map[string]*HandshakeState{}}
	n := verifInt("datagram-len")
	verifAssume(n >= 0 && n <= 65535)
	msg := verifBytes("datagram", n)
	from := sessAddr("from")

	oldState, oldWt, oldAddr, oldQ := ss.handleState, ss.window, ss.remoteAddr, len(ss.handle.recv.C)
	err := s.handleSessionMessage(from, msg)

	opened := len(sessLog.opens) > 0 && sessLog.opens[len(sessLog.opens)-1].ok
	if !opened {
		verifAssert(ss.handleState == oldState, "C10: a datagram that does not authenticate never changes the session's lifecycle state")
		verifAssert(ss.window == oldWt, "C10: a datagram that does not authenticate never moves the replay window")
		verifAssert(ss.remoteAddr == oldAddr, "C10: a datagram that does not authenticate never redirects the session")
		verifAssert(len(ss.handle.recv.C) == oldQ, "C10: a datagram that does not authenticate is never delivered")
	}
	switch {
	case err == ErrUnknownSession:
		verifCover("unknown-session")
	case err == ErrBufUnderflow:
		verifCover("short")
	case err == errSessOpen:
		verifCover("open-failed")
	case err == nil && oldState == closed:
		verifCover("closed-session")
	case err == nil && len(ss.handle.recv.C) > oldQ:
		verifCover("delivered")
	}
}

// The same for the client's handler.
//
//verif:prop C10
//verif:stub hop.computer/hop/kravatte.NewSANSE = sessNewSANSE
//verif:bounds as the server variant
//verif:cover open-failed;delivered
func VH_C10_client_session_message_any_datagram() {
	ss := sessState(1)
	ss.handleState = connState(verifPick("handleState", int(finishingHandshake), int(established), int(closed)))
	if verifBool("has-keys") {
		ss.readKey = &ss.serverToClientKey
		ss.writeKey = &ss.clientToServerKey
	}
	c := &Client{ss: ss}
	n := verifInt("datagram-len")
	verifAssume(n >= 0 && n <= 65535)
	msg := verifBytes("datagram", n)
	from := sessAddr("from")
	oldState, oldWt, oldAddr, oldQ := ss.handleState, ss.window, ss.remoteAddr, len(ss.handle.recv.C)
	err := c.handleSessionMessage(from, msg)
	opened := len(sessLog.opens) > 0 && sessLog.opens[len(sessLog.opens)-1].ok
	if !opened {
		verifAssert(ss.handleState == oldState, "C10: (client) a datagram that does not authenticate never changes the lifecycle state")
		verifAssert(ss.window == oldWt, "C10: (client) a datagram that does not authenticate never moves the replay window")
		verifAssert(ss.remoteAddr == oldAddr, "C10: (client) a datagram that does not authenticate never redirects the session")
		verifAssert(len(ss.handle.recv.C) == oldQ, "C10: (client) a datagram that does not authenticate is never delivered")
	}
	if err == errSessOpen {
		verifCover("open-failed")
	}
	if err == nil && len(ss.handle.recv.C) > oldQ {
		verifCover("delivered")
	}
}
