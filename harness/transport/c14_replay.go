package transport

// C14 — the replay filter accepts each fresh counter once and nothing stale.
//
// Ghost state: S = the set of counters accepted so far, an uninterpreted
// predicate; "empty" says S = {}. Representation invariant Inv(w, S):
//   (1) S(c) => c <= wt                       (wt is the maximum of S)
//   (2) !empty => S(wt);  empty => wt == 0 and nothing is in S
//   (3) for every c inside the ring ((c>>6)+7 >= wt>>6 and c <= wt|63):
//         bit(c) <=> S(c)
// The step harness assumes Inv at the instantiation points {c', seq, wt} and
// asserts Inv' at a fresh skolem point c' -- a one-step inductive argument that
// covers histories of any length. The property harness shows
//   Inv => (Check(seq) <=> !S(seq) && (empty || seq+448 >= wt)).

// The ghost predicate S is sampled at the finitely many points a harness
// needs (nondeterministic booleans made functionally consistent), so every
// harness is an ordinary Go test once the solver's values are plugged in.
type c14Ghost struct {
	pts []uint64
	val []bool
}

var c14S c14Ghost

func c14Reset() { c14S = c14Ghost{} }

func c14InS(c uint64) bool {
	v := verifBool("S(c)")
	for i := range c14S.pts {
		verifAssume(verifImplies(c14S.pts[i] == c, c14S.val[i] == v))
	}
	c14S.pts = append(c14S.pts, c)
	c14S.val = append(c14S.val, v)
	return v
}

func c14Bit(w *SlidingWindow, c uint64) bool {
	return w.blocks[(c>>6)&7]&(uint64(1)<<(c&63)) != 0
}

func c14InRing(wt, c uint64) bool {
	return verifAnd((c>>6)+7 >= wt>>6, c <= wt|63)
}

// c14InvAt is the invariant instantiated at point c.
func c14InvAt(w *SlidingWindow, empty bool, c uint64) bool {
	s := c14InS(c)
	i1 := verifImplies(s, c <= w.wt)
	i2 := verifImplies(empty, !s)
	i3 := verifImplies(c14InRing(w.wt, c), c14Bit(w, c) == s)
	return verifAnd(i1, verifAnd(i2, i3))
}

func c14InvGlobal(w *SlidingWindow, empty bool) bool {
	return verifAnd(verifImplies(!empty, c14InS(w.wt)), verifImplies(empty, w.wt == 0))
}

func c14Window() (*SlidingWindow, bool) {
	c14Reset()
	w := &SlidingWindow{}
	for i := range w.blocks {
		w.blocks[i] = verifU64("block")
	}
	w.wt = verifU64("wt")
	empty := verifBool("empty")
	verifAssume(w.wt < 1<<63)
	return w, empty
}

// Base case: the zero value satisfies the invariant with S = {}.
//
//verif:prop C14
//verif:bounds zero-value window; skolem point c symbolic (64 bit)
func VH_C14_base() {
	c14Reset()
	w := &SlidingWindow{}
	c := verifU64("c")
	verifAssume(!c14InS(c)) // S is empty
	verifAssert(c14InvAt(w, true, c), "C14 base: zero window satisfies Inv")
	verifAssert(c14InvGlobal(w, true), "C14 base: zero window satisfies Inv (global part)")
}

// Property: under Inv, Check decides exactly "fresh and inside the window".
//
//verif:prop C14
//verif:bounds arbitrary window state satisfying Inv (8x64 bits + top), seq < 2^63
//verif:cover check-true;check-false
func VH_C14_check_iff_spec() {
	w, empty := c14Window()
	seq := verifU64("seq")
	verifAssume(seq < 1<<63)
	verifAssume(c14InvAt(w, empty, seq))
	verifAssume(c14InvAt(w, empty, w.wt))
	verifAssume(c14InvGlobal(w, empty))
	got := w.Check(seq)
	want := verifAnd(!c14InS(seq), verifOr(empty, seq+448 >= w.wt))
	verifAssert(got == want, "C14: Check(seq) <=> fresh and not more than 448 below the highest accepted")
	if got {
		verifCover("check-true")
	} else {
		verifCover("check-false")
	}
}

// Step: Check-then-Mark preserves Inv with S' = S + {seq} when accepted.
//
//verif:prop C14
//verif:bounds arbitrary window state satisfying Inv, seq < 2^63, Mark's clearing loop unrolled fully (<= 8 iterations)
//verif:unwind 12
//verif:cover accepted;rejected;jump-over-ring;advance-blocks;in-window-revisit
func VH_C14_step_preserves_inv() {
	w, empty := c14Window()
	seq := verifU64("seq")
	c := verifU64("c") // skolem point for the post-invariant
	verifAssume(seq < 1<<63)
	verifAssume(c < 1<<63)
	verifAssume(c14InvAt(w, empty, seq))
	verifAssume(c14InvAt(w, empty, c))
	verifAssume(c14InvAt(w, empty, w.wt))
	verifAssume(c14InvGlobal(w, empty))
	oldWt := w.wt
	sC, sSeq := c14InS(c), c14InS(seq)
	acc := w.Check(seq)
	if acc {
		w.Mark(seq)
		verifCover("accepted")
		if seq>>6 > (oldWt>>6)+8 {
			verifCover("jump-over-ring")
		} else if seq>>6 > oldWt>>6 {
			verifCover("advance-blocks")
		} else if seq < oldWt {
			verifCover("in-window-revisit")
		}
	} else {
		verifCover("rejected")
	}
	// S' membership at the skolem point and at seq
	sCpost := verifOr(sC, verifAnd(acc, c == seq))
	sSeqPost := verifOr(sSeq, acc)
	emptyPost := verifAnd(empty, !acc)
	// Inv'(c)
	p1 := verifImplies(sCpost, c <= w.wt)
	p2 := verifImplies(emptyPost, !sCpost)
	p3 := verifImplies(c14InRing(w.wt, c), c14Bit(w, c) == sCpost)
	verifAssert(p1, "C14 step: accepted counters never exceed the top")
	verifAssert(p2, "C14 step: emptiness flag")
	verifAssert(p3, "C14 step: bitmap agrees with the accepted set inside the ring")
	// global part: top is a member; once accepted, seq is never accepted again
	verifAssert(verifImplies(!emptyPost, verifOr(verifAnd(w.wt == seq, sSeqPost), verifAnd(w.wt == oldWt, !empty))), "C14 step: top is the maximum accepted counter")
	verifAssert(verifImplies(acc, !w.Check(seq)), "C14 step: an accepted counter is rejected afterwards")
	verifAssert(w.wt < 1<<63, "C14 step: top stays below 2^63")
}

// Mark alone (as readPacketLocked calls it after a successful Check) never
// un-marks: every counter inside the new ring that was marked stays marked.
//
//verif:prop C14
//verif:bounds arbitrary window (no invariant needed), seq, c < 2^63
//verif:unwind 12
func VH_C14_mark_monotone() {
	w, _ := c14Window()
	seq := verifU64("seq")
	c := verifU64("c")
	verifAssume(seq < 1<<63)
	verifAssume(c < 1<<63)
	verifAssume(c <= w.wt)
	before := verifAnd(c14InRing(w.wt, c), c14Bit(w, c))
	w.Mark(seq)
	stillIn := c14InRing(w.wt, c)
	verifAssert(verifImplies(verifAnd(before, stillIn), c14Bit(w, c)), "C14: Mark never clears a counter that is still inside the ring")
	verifAssert(verifImplies(verifAnd(before, !stillIn), c+448 < w.wt), "C14: a marked counter leaves the ring only when it is below the window")
}

// BMC twin from the zero state against an explicit set model (guards the
// invariant against being vacuous or too strong).
//
//verif:prop C14
//verif:bounds k=3 symbolic counters < 2^63 from the zero-value window
//verif:unwind 12
//verif:cover dup-rejected;stale-rejected;fresh-accepted
func VH_C14_bmc3() { c14bmc(3) }

//verif:prop C14
//verif:tier thorough
//verif:bounds k=4 symbolic counters < 2^63 from the zero-value window
//verif:unwind 12
//verif:timeout 900
func VH_C14_bmc4() { c14bmc(4) }

func c14bmc(k int) {
	w := &SlidingWindow{}
	var acc [6]bool
	var cs [6]uint64
	for i := 0; i < k; i++ {
		cs[i] = verifU64("ctr")
		verifAssume(cs[i] < 1<<63)
		fresh := true
		any := false
		var max uint64
		for j := 0; j < i; j++ {
			fresh = verifAnd(fresh, verifOr(!acc[j], cs[j] != cs[i]))
			max = verifIteU64(verifAnd(acc[j], verifOr(!any, cs[j] > max)), cs[j], max)
			any = verifOr(any, acc[j])
		}
		want := verifAnd(fresh, verifOr(!any, cs[i]+448 >= max))
		got := w.Check(cs[i])
		verifAssert(got == want, "C14 bmc: Check agrees with the set model")
		acc[i] = got
		if got {
			w.Mark(cs[i])
			verifCover("fresh-accepted")
		} else if !fresh {
			verifCover("dup-rejected")
		} else {
			verifCover("stale-rejected")
		}
	}
}

// C03 relies on the same filter for "returned at most once": the inductive
// step and the Check<=>spec obligation are discharged under C03 as well, so a
// change to the filter is reported against the transport-channel property too.
//
//verif:prop C03
//verif:bounds as VH_C14_step_preserves_inv
//verif:unwind 12
//verif:cover accepted;rejected
func VH_C03_replay_filter_step() { VH_C14_step_preserves_inv() }

//verif:prop C03
//verif:bounds as VH_C14_check_iff_spec
//verif:cover check-true;check-false
func VH_C03_replay_filter_check_iff_spec() { VH_C14_check_iff_spec() }

// C15 leans on the same filter ("... and passes the replay filter; replayed
// packets never redirect traffic"): the inductive step is registered there too.
//
//verif:prop C15
//verif:bounds as VH_C14_step_preserves_inv
//verif:unwind 12
//verif:cover accepted;rejected
func VH_C15_replay_filter_step() { VH_C14_step_preserves_inv() }

//verif:prop C15
//verif:bounds as VH_C14_check_iff_spec
//verif:cover check-true;check-false
func VH_C15_replay_filter_check_iff_spec() { VH_C14_check_iff_spec() }

type c14ByteBuf struct{ b []byte }

func (w *c14ByteBuf) WriteByte(c byte) error {
	w.b = append(w.b, c)
	return nil
}

// The filter is fed the counter the packet carries: the header's 8 counter
// bytes decode to their 64-bit big-endian value (injective), and the sender's
// encoding decodes back to the counter it sent.
//
//verif:prop C14
//verif:bounds 8 symbolic header bytes; symbolic 64-bit send counter
//verif:cover decoded
func VH_C14_filter_is_fed_the_packets_counter() {
	var ss SessionState
	b := verifBytes("counter-bytes", 8)
	want := uint64(b[0])<<56 | uint64(b[1])<<48 | uint64(b[2])<<40 | uint64(b[3])<<32 | uint64(b[4])<<24 | uint64(b[5])<<16 | uint64(b[6])<<8 | uint64(b[7])
	verifAssert(ss.readCounter(b) == want, "C14: the counter checked and recorded by the filter is the 64-bit big-endian value of the header's counter field")
	ss.count = verifU64("send-counter")
	var w c14ByteBuf
	ss.writeCounter(&w)
	verifAssert(len(w.b) == 8, "C14: the counter is sent as 8 bytes")
	if len(w.b) == 8 {
		verifAssert(ss.readCounter(w.b) == ss.count, "C14: a sent counter is decoded to the same value by the receiver")
	}
	verifCover("decoded")
}
