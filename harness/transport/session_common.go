package transport

import (
	"crypto/cipher"
	"errors"
	"net"
	"time"
)

// Shared scaffolding for the session-layer harnesses (C03, C10, C15).
//
// kravatte.NewSANSE is replaced by an AEAD whose Open succeeds or fails
// nondeterministically (with fresh plaintext on success) and which records
// every call. What the harnesses establish is structural: WHICH key, WHICH
// associated data and WHICH ciphertext bytes are opened before anything is
// delivered or any state moves. That Open only succeeds for packets the peer
// sealed is the primitive's job (C12), not this layer's.

type sessOpenRec struct {
	key    [KeyLen]byte
	ad     []byte
	ct     []byte
	ctLen  int
	ok     bool
	pt     []byte
	keyLen int
}

type sessSealRec struct {
	key [KeyLen]byte
	ad  []byte
	pt  []byte
	ct  []byte
}

var sessLog struct {
	opens []sessOpenRec
	seals []sessSealRec
}

var errSessOpen = errors.New("aead: authentication failed (harness)")

type sessAEAD struct {
	key    [KeyLen]byte
	keyLen int
}

func (a *sessAEAD) NonceSize() int { return 0 }
func (a *sessAEAD) Overhead() int  { return TagLen }

func (a *sessAEAD) Seal(dst, nonce, pt, ad []byte) []byte {
	ct := verifFreshBytes("ciphertext", len(pt)+TagLen)
	sessLog.seals = append(sessLog.seals, sessSealRec{key: a.key, ad: append([]byte(nil), ad...), pt: pt, ct: ct})
	return append(dst, ct...)
}

func (a *sessAEAD) Open(dst, nonce, ct, ad []byte) ([]byte, error) {
	rec := sessOpenRec{key: a.key, keyLen: a.keyLen, ad: append([]byte(nil), ad...), ct: ct, ctLen: len(ct)}
	if len(ct) < TagLen || !verifBool("aead-open-succeeds") {
		sessLog.opens = append(sessLog.opens, rec)
		return nil, errSessOpen
	}
	rec.ok = true
	rec.pt = verifFreshBytes("plaintext", len(ct)-TagLen)
	sessLog.opens = append(sessLog.opens, rec)
	return append(dst, rec.pt...), nil
}

// number of AEAD instances created (the transport must create one per packet:
// SANSE is a SESSION mode, an instance remembers every message it processed)
var sessCreated int

func sessNewSANSE(key []byte) (cipher.AEAD, error) {
	sessCreated++
	a := &sessAEAD{keyLen: len(key)}
	copy(a.key[:], key)
	return a, nil
}

// sessUDP is a UDPLike that records what is written and yields one datagram.
type sessUDP struct {
	writes   int
	sent     [][]byte // every datagram written, in order
	lastPkt  []byte
	lastAddr *net.UDPAddr
	in       []byte
	inAddr   *net.UDPAddr
	inLen    int
	// a second datagram, returned by the second read
	in2    []byte
	inLen2 int
	reads  int
	// read deadline currently armed on the socket (zero time = none)
	deadlineArmed bool
}

func (u *sessUDP) ReadMsgUDP(b, oob []byte) (int, int, int, *net.UDPAddr, error) {
	u.reads++
	if u.reads == 2 && u.in2 != nil {
		copy(b, u.in2)
		return u.inLen2, 0, 0, u.inAddr, nil
	}
	copy(b, u.in)
	return u.inLen, 0, 0, u.inAddr, nil
}
func (u *sessUDP) Read(p []byte) (int, error)         { return 0, nil }
func (u *sessUDP) Write(p []byte) (int, error)        { return len(p), nil }
func (u *sessUDP) Close() error                       { return nil }
func (u *sessUDP) LocalAddr() net.Addr                { return nil }
func (u *sessUDP) RemoteAddr() net.Addr               { return nil }
func (u *sessUDP) SetDeadline(t time.Time) error      { return nil }
func (u *sessUDP) SetReadDeadline(t time.Time) error {
	u.deadlineArmed = !t.IsZero()
	return nil
}
func (u *sessUDP) SetWriteDeadline(t time.Time) error { return nil }

func (u *sessUDP) WriteMsgUDP(b, oob []byte, addr *net.UDPAddr) (int, int, error) {
	u.writes++
	u.lastPkt = append([]byte(nil), b...)
	u.sent = append(u.sent, u.lastPkt)
	u.lastAddr = addr
	return len(b), 0, nil
}

// sessAddr builds an arbitrary IPv4 UDP address.
func sessAddr(tag string) *net.UDPAddr {
	ip := verifBytes(tag+"-ip", 4)
	return &net.UDPAddr{IP: net.IP(ip), Port: int(verifU16(tag + "-port"))}
}

// sessState builds an arbitrary established session: keys, window (any state),
// send counter, lifecycle state and peer address are symbolic.
func sessState(recvCap int) *SessionState {
	ss := &SessionState{}
	copy(ss.sessionID[:], verifBytes("sessionID", 4))
	copy(ss.clientToServerKey[:], verifBytes("c2s-key", KeyLen))
	copy(ss.serverToClientKey[:], verifBytes("s2c-key", KeyLen))
	for i := range ss.window.blocks {
		ss.window.blocks[i] = verifU64("window-block")
	}
	ss.window.wt = verifU64("window-top")
	verifAssume(ss.window.wt < 1<<63)
	ss.count = verifU64("send-counter")
	ss.remoteAddr = sessAddr("peer")
	ss.handle = newHandleForSession(&sessUDP{}, ss, nil, recvCap)
	return ss
}

func sessAddrEq(a, b *net.UDPAddr) bool {
	if a == nil || b == nil {
		return a == b
	}
	return verifAnd(a.Port == b.Port, verifBytesEq(a.IP, b.IP))
}
