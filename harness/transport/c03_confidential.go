package transport

import (
	"hop.computer/hop/certs"
)

// C03, last clause — "neither application data nor the server name and
// certificates exchanged in the handshake ever appear on the wire
// unencrypted".
//
// Decided as syntactic non-interference under the ideal-crypto reading of
// DESIGN.md §2.4: the secret inputs are symbols whose names start with
// "secret"; the duplex's Encrypt and the AEAD's Seal are recorders whose
// outputs are FRESH symbols; every datagram handed to the socket by the REAL
// writer functions is then inspected byte by byte: its term must not depend on
// any secret symbol (verifBytesMention walks the term DAG). No dependency means
// no flow; a writer that copies, xors, hashes-without-the-duplex or otherwise
// derives a wire byte from the secret is a violation. (Application data:
// c03_write.go.)

//verif:filestub (*hop.computer/hop/cyclist.Cyclist).Absorb = hsAbsorb
//verif:filestub (*hop.computer/hop/cyclist.Cyclist).Squeeze = hsSqueeze
//verif:filestub (*hop.computer/hop/cyclist.Cyclist).SqueezeKey = hsSqueezeKey
//verif:filestub (*hop.computer/hop/cyclist.Cyclist).Decrypt = hsDecrypt
//verif:filestub (*hop.computer/hop/cyclist.Cyclist).Encrypt = hsEncrypt
//verif:filestub (*hop.computer/hop/cyclist.Cyclist).InitializeEmpty = hsInitEmpty
//verif:filestub (*hop.computer/hop/cyclist.Cyclist).Initialize = hsInit
//verif:filestub (*hop.computer/hop/cyclist.Cyclist).Ratchet = hsRatchet
//verif:filestub (*hop.computer/hop/keys.X25519KeyPair).DH = hsDH
//verif:filestub (*hop.computer/hop/keys.X25519KeyPair).Generate = hsGenerate
//verif:filestub hop.computer/hop/keys.ParseKEMPublicKeyFromBytes = hsParseKEMPublicKey
//verif:filestub (*hop.computer/hop/keys.KEMKeyPair).Decapsulate = hsDecapsulate
//verif:filestub hop.computer/hop/keys.Encapsulate = hsEncapsulate
//verif:filestub hop.computer/hop/keys.GenerateKEMKeyPair = hsGenerateKEMKeyPair
//verif:filestub hop.computer/hop/keys.GenerateKEMKeyPairFromSeed = hsGenerateKEMKeyPairFromSeed
//verif:filestub (*hop.computer/hop/transport.HandshakeState).certificateParserAndVerifier = hsCertVerifier
//verif:filestub hop.computer/hop/kravatte.NewSANSE = sessNewSANSE
//verif:filestub golang.org/x/crypto/sha3.New256 = hsNewSHA3

func c03NoSecretOnWire(u *sessUDP, what string) {
	for _, d := range u.sent {
		verifAssert(!verifBytesMention(d, "secret"), "C03: "+what+": no byte of any datagram sent depends on the server name or a certificate other than through the duplex's encryption")
	}
}

// Client, discoverable mode: ClientHello, ClientAck (SNI), ClientAuth (certificates).
//
//verif:prop C03
//verif:replay none
//verif:bounds client flow ClientHello -> ServerHello -> ClientAck -> ServerAuth -> ClientAuth over a fake socket with symbolic server datagrams of exact length; requested server name of 3 secret bytes, client leaf 12 and intermediate 0 or 9 secret bytes; duplex / KEM / DH outputs fresh (ideal)
//verif:cover completed;aborted
//verif:timeout 600
func VH_C03_client_handshake_sends_name_and_certificates_only_encrypted() {
	hsReset()
	u := &sessUDP{}
	hs := hsNewState()
	hs.dh.static = &hsExch{}
	hs.certVerify = &VerifyConfig{Name: certs.Name{Type: certs.TypeDNSName, Label: verifBytes("secret-sni", 3)}}
	hs.leaf = verifBytes("secret-client-leaf", 12)
	if verifBool("client-has-intermediate") {
		hs.intermediate = verifBytes("secret-client-intermediate", 9)
	}
	hs.remoteAddr = sessAddr4(10, 0, 0, 2, 77)
	c := &Client{hs: hs, underlyingConn: u}
	n1 := HeaderLen + KemCtLen + PQCookieLen + MacLen
	n2 := verifPick("serverauth-len", 100, 120)
	u.in, u.inLen = verifBytes("serverhello", n1), n1
	u.in2, u.inLen2 = verifBytes("serverauth", n2), n2
	err := c.beginPQDiscoverableHandshake(make([]byte, 65535))
	c03NoSecretOnWire(u, "client handshake")
	if err != nil {
		verifCover("aborted")
		return
	}
	verifCover("completed")
	verifAssert(len(u.sent) == 3, "C03: ClientHello, ClientAck and ClientAuth were sent")
}

// Client, hidden mode: the single request carries the certificates and a timestamp.
//
//verif:prop C03
//verif:replay none
//verif:bounds one hidden-mode client request; client leaf 12 and intermediate 0 or 9 secret bytes; duplex / KEM outputs fresh (ideal)
//verif:cover written
func VH_C03_hidden_client_request_sends_certificates_only_encrypted() {
	hsReset()
	hs := hsNewState()
	hs.dh.static = &hsExch{}
	hs.leaf = verifBytes("secret-client-leaf", 12)
	if verifBool("client-has-intermediate") {
		hs.intermediate = verifBytes("secret-client-intermediate", 9)
	}
	pub, err := hsParseKEMPublicKey(verifBytes("server-kem-key", KemKeyLen))
	verifAssume(err == nil)
	buf := make([]byte, 65535)
	n, err := hs.writePQClientRequestHidden(buf, pub)
	verifAssert(err == nil, "C03: the hidden request is written")
	if err != nil {
		return
	}
	verifCover("written")
	verifAssert(!verifBytesMention(buf[:n], "secret"), "C03: hidden client request: no byte depends on a certificate other than through the duplex's encryption")
}

func c03ServerWithSecretCert() (*Server, *HandshakeState) {
	s, _ := hsServer(false)
	c := &Certificate{RawLeaf: verifBytes("secret-server-leaf", 10), Exchanger: &hsExch{}, HostNames: []string{"host.example"}}
	if verifBool("server-has-intermediate") {
		c.RawIntermediate = verifBytes("secret-server-intermediate", 7)
	}
	s.config.GetCertificate = func(ClientHandshakeInfo) (*Certificate, error) { return c, nil }
	hs := hsNewState()
	copy(hs.sessionID[:], verifBytes("session-id", 4))
	return s, hs
}

// Server, discoverable mode: ServerAuth carries the server's certificates.
//
//verif:prop C03
//verif:replay none
//verif:bounds one ServerAuth written by the real writer; server leaf 10 and intermediate 0 or 7 secret bytes; duplex / DH outputs fresh (ideal)
//verif:cover written
func VH_C03_serverauth_sends_certificates_only_encrypted() {
	hsReset()
	s, hs := c03ServerWithSecretCert()
	buf := make([]byte, 65535)
	n, err := s.writePQServerAuth(buf, hs)
	verifAssert(err == nil, "C03: ServerAuth is written")
	if err != nil {
		return
	}
	verifCover("written")
	verifAssert(!verifBytesMention(buf[:n], "secret"), "C03: ServerAuth: no byte depends on a certificate other than through the duplex's encryption")
}

// Server, hidden mode: the response carries the server's certificates.
//
//verif:prop C03
//verif:replay none
//verif:bounds one hidden-mode ServerResponse written by the real writer; server leaf 10 and intermediate 0 or 7 secret bytes; duplex / DH outputs fresh (ideal)
//verif:cover written
func VH_C03_hidden_server_response_sends_certificates_only_encrypted() {
	hsReset()
	s, hs := c03ServerWithSecretCert()
	buf := make([]byte, 65535)
	n, err := s.writePQServerResponseHidden(hs, buf)
	verifAssert(err == nil, "C03: the hidden ServerResponse is written")
	if err != nil {
		return
	}
	verifCover("written")
	verifAssert(!verifBytesMention(buf[:n], "secret"), "C03: hidden ServerResponse: no byte depends on a certificate other than through the duplex's encryption")
}

// Application data: whatever Write / WriteMsg put on the wire depends on the
// caller's bytes only through the AEAD's output.
//
//verif:prop C03
//verif:replay none
//verif:bounds one Handle.Write of symbolic length 0..3*MaxPlaintextSize+1, or one WriteMsg of symbolic length 0..MaxPlaintextSize, with secret symbolic content on an established session; AEAD Seal is a recorder with fresh output (ideal)
//verif:cover write;writemsg
//verif:unwind 12
//verif:timeout 400
func VH_C03_application_data_reaches_the_wire_only_sealed() {
	ss := sessState(1)
	ss.handleState = established
	ss.readKey, ss.writeKey = &ss.clientToServerKey, &ss.serverToClientKey
	verifAssume(ss.count < 1<<62)
	u := ss.handle.underlying.(*sessUDP)
	n := verifInt("len")
	if verifBool("use-writemsg") {
		verifAssume(n >= 0 && n <= MaxPlaintextSize)
		err := ss.handle.WriteMsg(verifBytes("secret-payload", n))
		verifAssert(err == nil && len(u.sent) == 1, "C03: WriteMsg sends one datagram")
		verifCover("writemsg")
	} else {
		verifAssume(n >= 0 && n <= 3*MaxPlaintextSize+1)
		_, err := ss.handle.Write(verifBytes("secret-payload", n))
		verifAssert(err == nil, "C03: Write on an established session with a working socket succeeds")
		verifCover("write")
	}
	for _, d := range u.sent {
		verifAssert(!verifBytesMention(d, "secret"), "C03: no datagram on the wire depends on the application data other than through the AEAD output")
	}
}
