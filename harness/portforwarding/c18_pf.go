package portforwarding

import (
	"io"
	"net"
)

// C18 / C11 — port-forward requests.

type c18Buf struct {
	b   []byte
	off int
}

func (v *c18Buf) Read(p []byte) (int, error) {
	if v.off >= len(v.b) {
		return 0, io.EOF
	}
	n := copy(p, v.b[v.off:])
	v.off += n
	return n, nil
}

func c18Addr() (net.Addr, string) {
	var ip net.IP
	switch verifPick("ip", 0, 1, 2, 3) {
	case 0:
		ip = net.IPv4(127, 0, 0, 1)
	case 1:
		ip = net.IP{10, 1, 2, 3}
	case 2:
		ip = net.ParseIP("::1")
	case 3:
		ip = net.ParseIP("2001:db8::42")
	}
	port := verifPick("port", 0, 53, 8080, 65535)
	switch verifPick("net", 0, 1, 2) {
	case 0:
		return &net.TCPAddr{IP: ip, Port: port}, "tcp"
	case 1:
		return &net.UDPAddr{IP: ip, Port: port}, "udp"
	}
	n := verifPick("pathlen", 0, 1, 7)
	return &net.UnixAddr{Name: "/" + verifString("path", n), Net: "unix"}, "unix"
}

// decode(encode(address, type)) == (address, type) for TCP, UDP (IPv4 and IPv6)
// and unix-socket forward requests.
//
//verif:prop C18
//verif:bounds network in {tcp, udp, unix}; IP in {127.0.0.1, 10.1.2.3, ::1, 2001:db8::42}; port in {0,53,8080,65535}; unix path "/" + 0..7 symbolic bytes; forward-type byte symbolic; host/port text functions run natively on these concrete values
//verif:cover tcp;udp;unix
func VH_C18_portforward_request_roundtrip() {
	addr, kind := c18Addr()
	ft := verifU8("fwdtype")
	wire := toBytes(addr, int(ft))
	verifAssert(wire != nil, "C18: a forward request for a supported address type encodes")
	got, gft, err := readPacket(&c18Buf{b: wire})
	verifAssert(err == nil, "C18: an encoded forward request decodes (IPv6 hosts must stay bracketed)")
	if err != nil {
		return
	}
	verifAssert(gft == ft, "C18: forward type round-trips")
	switch a := addr.(type) {
	case *net.TCPAddr:
		g, ok := got.(*net.TCPAddr)
		verifAssert(ok && g.Port == a.Port && g.IP.Equal(a.IP), "C18: TCP forward address round-trips")
	case *net.UDPAddr:
		g, ok := got.(*net.UDPAddr)
		verifAssert(ok && g.Port == a.Port && g.IP.Equal(a.IP), "C18: UDP forward address round-trips")
	case *net.UnixAddr:
		g, ok := got.(*net.UnixAddr)
		verifAssert(ok && g.Net == "unix", "C18: unix forward address keeps its network")
		if ok {
			verifAssertStrEq(g.Name, a.Name, "C18: unix forward path round-trips")
		}
	}
	verifCover(kind)
}

// readPacket on arbitrary bytes: a value or an error, bounded allocation.
//
//verif:prop C11
//verif:bounds stream length in {0,1,2,3,4,6,20}; network-type and forward-type bytes symbolic; 16-bit address length symbolic; address text: for TCP/UDP one of 6 concrete texts (valid IPv4/IPv6, missing port, bad brackets, empty), for unix symbolic bytes
//verif:cover returned
//verif:timeout 600
func VH_C11_portforward_readpacket_total() {
	texts := []string{"127.0.0.1:80", "[::1]:53", "::1:53", "nohostport", "[::1", ""}
	var raw []byte
	if verifBool("structured") {
		t := texts[verifPick("text", 0, 1, 2, 3, 4, 5)]
		raw = append([]byte{verifU8("nettype"), verifU8("fwdtype"), byte(len(t) >> 8), byte(len(t))}, t...)
		if verifBool("truncate") && len(raw) > 0 {
			raw = raw[:len(raw)-1]
		}
	} else {
		raw = verifBytes("stream", verifPick("streamlen", 0, 1, 2, 3, 4, 6, 20))
		if len(raw) > 0 {
			raw[0] = byte(PfUNIX) // symbolic address text is only parsed for unix sockets
		}
	}
	verifAllocLimit(65536 + 32)
	_, _, _ = readPacket(&c18Buf{b: raw})
	verifCover("returned")
}
