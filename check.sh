#!/bin/sh
# usage: check.sh <PROP> <quick|thorough>
# Rebuilds nothing from cache: the engine re-loads /repo's working tree (go/packages + go/ssa) on every run.
cd /verif || exit 2
export GOFLAGS=-mod=mod GOPROXY=off GOTOOLCHAIN=auto
[ -x /verif/bin/gosym ] || (cd /verif/engine && go build -o /verif/bin/gosym .) || exit 2
exec /verif/bin/gosym check "$1" --tier "${2:-quick}"
